// C37 — The address manager stays internally consistent and bounded.
// VX-STATE by history replay on the real AddrMan(netgroupman, deterministic=true, consistency_check_ratio=0) with the
// consistency check (AddrManImpl::CheckAddrman) called explicitly after the last operation of every history.
// Address universes are found by a start-up search under the deterministic key: X and Y collide in a tried-table
// slot, Z and Z2 sit in the new-table slot that X returns to when it is evicted from tried; P4/Q6 (IPv4 vs IPv6) and
// R4/Onion (IPv4 vs Tor v3) share a tried slot across networks (config "crossnet"); plus one address per
// other network (IPv6, Tor v3, I2P, CJDNS). Random decisions inside AddrMan (stochastic multi-bucket insertion,
// SelectTriedCollision) are enumerated: the operations that draw randomness reseed the manager's private RNG with
// one of two seeds chosen so that both outcomes of the first draw occur.
//
// Oracle after every history: CheckAddrman()==0; from GetEntries(): every address in <= 8 new slots xor exactly one
// tried slot; Size()/Size(net,new|tried) == distinct addresses counted from the tables and within capacity;
// only added addresses are stored and only addresses reported Good are in tried; FindAddressEntry agrees with the
// tables; for every newly reached state Select()/GetAddr() return only stored addresses that pass the requested
// filter, and a serialize -> Unserialize round trip into a fresh AddrMan yields the same addresses, statistics,
// table membership and multiplicities and passes the check; a reload under a foreign asmap passes the check and
// keeps a subset.
#include <vx/vx.h>
#include <kits/histbfs.h>

#include <addrman.h>
#include <addrman_impl.h>
#include <netaddress.h>
#include <netbase.h>
#include <netgroup.h>
#include <protocol.h>
#include <random.h>
#include <streams.h>
#include <util/time.h>

#include <arpa/inet.h>
#include <malloc.h>
#include <fstream>
#include <map>
#include <set>

using namespace std::chrono_literals;

namespace {

const NodeSeconds NOW{1'700'000'000s};
std::unique_ptr<NetGroupManager> NGM, NGM_ASMAP;

struct UAddr { CService svc; std::string name; };
std::vector<UAddr> U;          // address universe of the current configuration
std::vector<CNetAddr> SRC;     // sources
uint256 SEED[2];               // SEED[0]: first randrange(2^k) draw == 0 ("insert"), SEED[1]: != 0

enum OpType { ADD, GOOD, ATTEMPT, CONNECTED, SETSERV, RESOLVE, STC, RELOAD };
struct Op { OpType t; int a = 0; int src = 0; int64_t t_off = 0; int64_t pen = 0; int seed = -1; bool flag = false; };
std::vector<Op> OPS;

std::string off_str(int64_t s)
{
    if (s == 0) return "NOW";
    char b[32];
    if (s % 86400 == 0) snprintf(b, sizeof b, "NOW%+lldd", (long long)(s / 86400));
    else if (s % 3600 == 0) snprintf(b, sizeof b, "NOW%+lldh", (long long)(s / 3600));
    else snprintf(b, sizeof b, "NOW%+lldmin", (long long)(s / 60));
    return b;
}
std::string op_str(const Op& o)
{
    char b[200];
    switch (o.t) {
    case ADD: snprintf(b, sizeof b, "Add(%s nTime=%s, source=S%d, penalty=%llds)%s", U[o.a].name.c_str(), off_str(o.t_off).c_str(), o.src + 1, (long long)o.pen, o.seed < 0 ? "" : o.seed == 0 ? " [rng: take another bucket]" : " [rng: do not]"); break;
    case GOOD: snprintf(b, sizeof b, "Good(%s, time=%s)", U[o.a].name.c_str(), off_str(o.t_off).c_str()); break;
    case ATTEMPT: snprintf(b, sizeof b, "Attempt(%s, fCountFailure=%d, time=%s)", U[o.a].name.c_str(), o.flag, off_str(o.t_off).c_str()); break;
    case CONNECTED: snprintf(b, sizeof b, "Connected(%s, time=%s)", U[o.a].name.c_str(), off_str(o.t_off).c_str()); break;
    case SETSERV: snprintf(b, sizeof b, "SetServices(%s, NODE_NETWORK|NODE_WITNESS|NODE_P2P_V2)", U[o.a].name.c_str()); break;
    case RESOLVE: snprintf(b, sizeof b, "ResolveCollisions()"); break;
    case STC: snprintf(b, sizeof b, "SelectTriedCollision() [rng seed #%d]", o.seed); break;
    case RELOAD: snprintf(b, sizeof b, "serialize, Unserialize into a fresh AddrMan, continue with it"); break;
    }
    return b;
}
std::string g_cfg_name;
std::string describe(const std::string& hist)
{
    std::string s = "# config=" + g_cfg_name + "; mock time fixed at NOW; universe:";
    for (auto& u : U) s += " " + u.name + "=" + u.svc.ToStringAddrPort();
    s += "\n";
    for (unsigned char c : hist) s += std::to_string((int)c) + " " + op_str(OPS[c]) + "\n";
    return s;
}
void fail(const std::string& key, const std::string& what, const std::string& hist) { vx::violation(g_cfg_name + ":" + key, what, describe(hist)); }

int uidx(const CService& s) { for (size_t i = 0; i < U.size(); i++) if (U[i].svc == s) return (int)i; return -1; }

// ------------------------------------------------------------------ light reference model
struct Model {
    std::set<int> added;   // addresses passed to Add at least once
    std::set<int> gooded;  // addresses passed to Good at least once
};

std::atomic<uint64_t> g_multi_ref{0}, g_tried{0}, g_collision_pending{0}, g_collision_replaced{0}, g_collision_kept{0}, g_new_overwrite{0}, g_third_party_deleted{0}, g_reload_ops{0},
    g_reload_probes{0}, g_select_hits{0}, g_select_empty{0}, g_terrible_filtered{0}, g_evicted_to_new{0}, g_add_rejected_collision{0}, g_asmap_reloads{0}, g_asmap_lost{0}, g_net_seen[NET_MAX + 1], g_stc_hit{0}, g_refcount_ge3{0}, g_cross_net_evict[3];

struct Snap { // table view from the public GetEntries()
    std::map<int, int> new_slots, tried_slots;
    std::map<int, AddrInfo> info;
    bool ok = true;
};
Snap snapshot_public(const AddrMan& am, const std::string& hist, bool report)
{
    Snap s;
    for (bool tried : {false, true})
        for (auto& [info, pos] : am.GetEntries(tried)) {
            int i = uidx(info);
            if (i < 0) { if (report) fail("unknown-address-stored", "the tables hold an address that was never passed to Add: " + info.ToStringAddrPort(), hist); s.ok = false; continue; }
            (tried ? s.tried_slots : s.new_slots)[i]++;
            s.info.emplace(i, info);
        }
    return s;
}
// Same view, counted directly from the vvNew / vvTried tables (the property talks about table slots); one pass.
// `slots` (optional) receives the occupied new slots for the canonical key.
Snap snapshot(const AddrMan& am, const std::string& hist, bool report, std::string* slots = nullptr)
{
    Snap s;
    AddrManImpl& im = *am.m_impl;
    LOCK(im.cs);
    auto lookup = [&](nid_type id) -> int {
        auto it = im.mapInfo.find(id);
        if (it == im.mapInfo.end()) { if (report) fail("dangling-table-entry", "a table slot refers to an id without an entry", hist); s.ok = false; return -1; }
        int i = uidx(it->second);
        if (i < 0) { if (report) fail("unknown-address-stored", "the tables hold an address that was never passed to Add: " + it->second.ToStringAddrPort(), hist); s.ok = false; return -1; }
        s.info.emplace(i, it->second);
        return i;
    };
    auto empty_row = [](const nid_type* row) { nid_type acc = -1; for (int p = 0; p < ADDRMAN_BUCKET_SIZE; p++) acc &= row[p]; return acc == -1; }; // ids are >= 0: all-ones only if every slot is -1
    for (int b = 0; b < ADDRMAN_NEW_BUCKET_COUNT; b++) {
        if (empty_row(im.vvNew[b])) continue;
        for (int p = 0; p < ADDRMAN_BUCKET_SIZE; p++)
            if (im.vvNew[b][p] != -1) {
                int i = lookup(im.vvNew[b][p]);
                if (i >= 0) s.new_slots[i]++;
                if (slots) *slots += std::to_string(b) + "." + std::to_string(p) + "=" + std::to_string(i) + ",";
            }
    }
    for (int b = 0; b < ADDRMAN_TRIED_BUCKET_COUNT; b++) {
        if (empty_row(im.vvTried[b])) continue;
        for (int p = 0; p < ADDRMAN_BUCKET_SIZE; p++)
            if (im.vvTried[b][p] != -1) {
                int i = lookup(im.vvTried[b][p]);
                if (i >= 0) s.tried_slots[i]++;
            }
    }
    return s;
}

// cheap view for bookkeeping around an operation: what the entry map says (no table scan)
Snap quick_view(const AddrMan& am)
{
    Snap s;
    AddrManImpl& im = *am.m_impl;
    LOCK(im.cs);
    for (auto& [id, info] : im.mapInfo) {
        int i = uidx(info);
        if (i < 0) continue;
        if (info.fInTried) s.tried_slots[i] = 1;
        else s.new_slots[i] = info.nRefCount;
    }
    return s;
}

std::unique_ptr<AddrMan> fresh() { return std::make_unique<AddrMan>(*NGM, /*deterministic=*/true, /*consistency_check_ratio=*/0); }
int check_code(const AddrMan& am) { LOCK(am.m_impl->cs); return am.m_impl->CheckAddrman(); }
void reseed(AddrMan& am, const uint256& seed) { LOCK(am.m_impl->cs); am.m_impl->insecure_rand.Reseed(seed); }

std::unique_ptr<AddrMan> reload(const AddrMan& am, const NetGroupManager& ngm, std::string* err)
{
    DataStream ds{};
    ds << am;
    auto out = std::make_unique<AddrMan>(ngm, true, 0);
    try {
        ds >> *out;
    } catch (const std::exception& e) {
        if (err) *err = e.what();
        return nullptr;
    }
    return out;
}

// canonical key of the implementation state (private members; diagnostics/merging only)
std::string impl_key(const AddrMan& am, const std::string& slots)
{
    AddrManImpl& im = *am.m_impl;
    LOCK(im.cs);
    std::map<nid_type, int> id2u;
    std::vector<std::string> rows(U.size());
    for (auto& [id, info] : im.mapInfo) {
        int i = uidx(info);
        if (i < 0) continue;
        id2u[id] = i;
        char b[256];
        snprintf(b, sizeof b, "%d:%c r%d t%lld s%llx src%s try%lld cnt%lld suc%lld a%d|", i, info.fInTried ? 'T' : 'N', info.nRefCount, (long long)(info.nTime - NOW).count(), (unsigned long long)info.nServices,
                 info.source.ToStringAddr().c_str(), (long long)info.m_last_try.time_since_epoch().count(), (long long)info.m_last_count_attempt.time_since_epoch().count(),
                 (long long)info.m_last_success.time_since_epoch().count(), info.nAttempts);
        rows[i] = b;
    }
    std::string s;
    for (auto& r : rows) s += r.empty() ? "-|" : r;
    s += "N:" + slots;
    s += "C:";
    std::set<int> coll;
    for (auto id : im.m_tried_collisions) { auto it = id2u.find(id); coll.insert(it == id2u.end() ? -1 : it->second); }
    for (int c : coll) s += std::to_string(c) + ",";
    s += "G" + std::to_string((long long)im.m_last_good.time_since_epoch().count());
    return s;
}

// invariants + model checks on the state reached by hist
void check_state(const AddrMan& am, const Model& m, const std::string& hist, std::string* slots)
{
    int code = check_code(am);
    if (code != 0) fail("checkaddrman-" + std::to_string(code), "CheckAddrman() returned " + std::to_string(code), hist);
    Snap s = snapshot(am, hist, true, slots);
    std::set<int> all;
    std::map<Network, std::pair<size_t, size_t>> per_net;
    for (auto& [i, n] : s.new_slots) {
        all.insert(i);
        if (n > ADDRMAN_NEW_BUCKETS_PER_ADDRESS) fail("more-than-8-new-slots", U[i].name + " occupies " + std::to_string(n) + " new-table slots", hist);
        if (s.tried_slots.count(i)) fail("new-and-tried", U[i].name + " is in the new and in the tried table", hist);
        per_net[U[i].svc.GetNetwork()].first++;
        if (n >= 2) g_multi_ref++;
        if (n >= 3) g_refcount_ge3++;
    }
    for (auto& [i, n] : s.tried_slots) {
        all.insert(i);
        if (n != 1) fail("several-tried-slots", U[i].name + " occupies " + std::to_string(n) + " tried-table slots", hist);
        per_net[U[i].svc.GetNetwork()].second++;
        if (!m.gooded.count(i)) fail("tried-without-good", U[i].name + " is in the tried table although Good() was never called for it", hist);
        g_tried++;
    }
    for (int i : all) if (!m.added.count(i)) fail("stored-without-add", U[i].name + " is stored although it was never added", hist);
    if (am.Size() != all.size()) fail("size-mismatch", "Size()=" + std::to_string(am.Size()) + " but the tables hold " + std::to_string(all.size()) + " distinct addresses", hist);
    if (am.Size(std::nullopt, true) != s.new_slots.size()) fail("size-new-mismatch", "Size(new)=" + std::to_string(am.Size(std::nullopt, true)) + " but the new table holds " + std::to_string(s.new_slots.size()) + " distinct addresses", hist);
    if (am.Size(std::nullopt, false) != s.tried_slots.size()) fail("size-tried-mismatch", "Size(tried)=" + std::to_string(am.Size(std::nullopt, false)) + " but the tried table holds " + std::to_string(s.tried_slots.size()), hist);
    if (am.Size(std::nullopt, true) > (size_t)ADDRMAN_NEW_BUCKET_COUNT * ADDRMAN_BUCKET_SIZE || am.Size(std::nullopt, false) > (size_t)ADDRMAN_TRIED_BUCKET_COUNT * ADDRMAN_BUCKET_SIZE) fail("over-capacity", "table size exceeds bucket capacity", hist);
    for (Network net : {NET_IPV4, NET_IPV6, NET_ONION, NET_I2P, NET_CJDNS}) {
        auto want = per_net.count(net) ? per_net[net] : std::pair<size_t, size_t>{0, 0};
        if (am.Size(net, true) != want.first || am.Size(net, false) != want.second || am.Size(net) != want.first + want.second)
            fail("size-per-network-mismatch", "Size(" + GetNetworkName(net) + ") disagrees with the tables", hist);
        if (want.first + want.second) g_net_seen[net]++;
    }
    for (size_t i = 0; i < U.size(); i++) {
        auto pos = const_cast<AddrMan&>(am).FindAddressEntry(CAddress{U[i].svc, NODE_NONE});
        bool stored = all.count(i);
        if (pos.has_value() != stored) { fail("findaddressentry-presence", "FindAddressEntry(" + U[i].name + ") disagrees with the tables", hist); continue; }
        if (!stored) continue;
        bool tried = s.tried_slots.count(i);
        int mult = tried ? 1 : s.new_slots[i];
        if (pos->tried != tried || pos->multiplicity != mult) fail("findaddressentry-multiplicity", "FindAddressEntry(" + U[i].name + ") reports tried=" + std::to_string(pos->tried) + " multiplicity=" + std::to_string(pos->multiplicity) + ", tables: tried=" + std::to_string(tried) + " slots=" + std::to_string(mult), hist);
    }
}

int g_select_full_depth = 4;
// probes run once per newly reached state
void probe_state(AddrMan& am, const std::string& hist)
{
    Snap s = snapshot_public(am, hist, true);
    {
        Snap t = snapshot(am, hist, false);
        if (t.new_slots != s.new_slots || t.tried_slots != s.tried_slots) fail("getentries-mismatch", "GetEntries() disagrees with the tables", hist);
    }
    std::set<int> all;
    for (auto& [i, n] : s.new_slots) all.insert(i);
    for (auto& [i, n] : s.tried_slots) all.insert(i);
    // --- GetAddr
    auto as_set = [&](const std::vector<CAddress>& v, const char* what) {
        std::set<int> r;
        for (auto& a : v) {
            int i = uidx(a);
            if (i < 0 || !all.count(i)) fail(std::string("getaddr-unknown-") + what, std::string("GetAddr(") + what + ") returned an address that is not stored: " + a.ToStringAddrPort(), hist);
            else if (!r.insert(i).second) fail(std::string("getaddr-duplicate-") + what, std::string("GetAddr(") + what + ") returned an address twice", hist);
        }
        return r;
    };
    reseed(am, SEED[0]);
    std::set<int> unf = as_set(am.GetAddr(0, 0, std::nullopt, /*filtered=*/false), "all,unfiltered");
    if (unf != all) fail("getaddr-unfiltered-incomplete", "GetAddr(0,0,all,unfiltered) does not return exactly the stored addresses", hist);
    std::set<int> fil = as_set(am.GetAddr(0, 0, std::nullopt, true), "all,filtered");
    if (fil.size() < unf.size()) g_terrible_filtered++;
    for (Network net : {NET_IPV4, NET_ONION, NET_CJDNS}) {
        std::set<int> r = as_set(am.GetAddr(0, 0, net, false), "network");
        std::set<int> want;
        for (int i : all) if (U[i].svc.GetNetClass() == net) want.insert(i);
        if (r != want) fail("getaddr-network-filter", "GetAddr(0,0," + GetNetworkName(net) + ",unfiltered) does not return exactly the stored addresses of that network", hist);
    }
    {
        auto v = am.GetAddr(1, 0, std::nullopt, false);
        if (v.size() > 1 || (v.size() == 0 && !all.empty())) fail("getaddr-max", "GetAddr(max_addresses=1) returned " + std::to_string(v.size()) + " addresses", hist);
        as_set(v, "max1");
    }
    // --- Select. An entry tried within the last 10 minutes is accepted with 1% probability per round, which makes one
    // call cost ~10 ms on these sparse tables; such states get one call (only up to depth `g_select_full_depth`),
    // all others the four (new_only, network set) combinations below.
    bool recently_tried = false;
    for (auto& [i, info] : s.info) recently_tried |= (NOW - info.m_last_try < 10min);
    struct SelCase { bool new_only; int nets; int seed; };
    static const SelCase SEL[4] = {{false, 0, 0}, {true, 0, 1}, {false, 1, 1}, {true, 2, 0}};
    const std::unordered_set<Network> netsets[3] = {{}, {NET_IPV4}, {NET_ONION, NET_I2P, NET_CJDNS, NET_IPV6}};
    for (int k = 0; k < 4; k++) {
        if (recently_tried && (k > 0 || (int)hist.size() > g_select_full_depth)) break;
        const bool new_only = SEL[k].new_only;
        const auto& nets = netsets[SEL[k].nets];
        reseed(am, SEED[SEL[k].seed]);
        auto [addr, last_try] = am.Select(new_only, nets);
        size_t cand = 0;
        for (int i : all) {
            if (!nets.empty() && !nets.count(U[i].svc.GetNetwork())) continue;
            if (new_only && s.tried_slots.count(i)) continue;
            cand++;
        }
        if (!addr.IsValid()) {
            g_select_empty++;
            if (cand) fail("select-empty", "Select() returned nothing although " + std::to_string(cand) + " stored addresses match", hist);
            continue;
        }
        g_select_hits++;
        int i = uidx(addr);
        if (i < 0 || !all.count(i)) { fail("select-unknown", "Select() returned an address that is not stored: " + addr.ToStringAddrPort(), hist); continue; }
        if (new_only && s.tried_slots.count(i)) fail("select-new-only", "Select(new_only) returned an address from the tried table", hist);
        if (!nets.empty() && !nets.count(U[i].svc.GetNetwork())) fail("select-network", "Select(networks) returned an address of another network", hist);
    }
    int code = check_code(am);
    if (code != 0) fail("checkaddrman-after-queries-" + std::to_string(code), "CheckAddrman() returned " + std::to_string(code) + " after GetAddr/Select", hist);
    // --- serialization round trip
    {
        std::string err;
        auto re = reload(am, *NGM, &err);
        g_reload_probes++;
        if (!re) { fail("reload-failed", "Unserialize of a freshly serialized AddrMan failed: " + err, hist); }
        else {
            int c2 = check_code(*re);
            if (c2 != 0) fail("reload-checkaddrman-" + std::to_string(c2), "CheckAddrman() of the reloaded AddrMan returned " + std::to_string(c2), hist);
            Snap r = snapshot(*re, hist, true);
            if (r.new_slots != s.new_slots) fail("reload-new-table", "the reloaded new table holds different addresses or multiplicities", hist);
            if (r.tried_slots != s.tried_slots) fail("reload-tried-table", "the reloaded tried table holds different addresses", hist);
            for (auto& [i, info] : s.info) {
                auto it = r.info.find(i);
                if (it == r.info.end()) continue;
                const AddrInfo& b = it->second;
                if (b.nTime != info.nTime || b.nServices != info.nServices || b.m_last_success != info.m_last_success || b.nAttempts != info.nAttempts || !(b.source == info.source))
                    fail("reload-statistics", "statistics of " + U[i].name + " changed in a serialization round trip (nTime/services/last_success/attempts/source)", hist);
            }
            if (re->Size() != am.Size() || re->Size(std::nullopt, true) != am.Size(std::nullopt, true) || re->Size(std::nullopt, false) != am.Size(std::nullopt, false)) fail("reload-size", "Size() differs after a serialization round trip", hist);
            for (Network net : {NET_IPV4, NET_IPV6, NET_ONION, NET_I2P, NET_CJDNS})
                if (re->Size(net, true) != am.Size(net, true) || re->Size(net, false) != am.Size(net, false)) fail("reload-size-network", "per-network Size() differs after a serialization round trip", hist);
        }
    }
    // --- reload under a foreign asmap: buckets are recomputed, collisions may drop entries, never invent any
    if (NGM_ASMAP) {
        std::string err;
        auto re = reload(am, *NGM_ASMAP, &err);
        g_asmap_reloads++;
        if (!re) fail("asmap-reload-failed", "Unserialize under a different asmap failed: " + err, hist);
        else {
            Snap r = snapshot(*re, hist, true);
            for (auto& [i, n] : r.new_slots) if (!s.new_slots.count(i)) fail("asmap-reload-new-invented", U[i].name + " appears in the new table only after reloading under another asmap", hist);
            for (auto& [i, n] : r.tried_slots) if (!s.tried_slots.count(i)) fail("asmap-reload-tried-invented", U[i].name + " appears in the tried table only after reloading under another asmap", hist);
            for (auto& [i, n] : r.new_slots) if (n > ADDRMAN_NEW_BUCKETS_PER_ADDRESS) fail("asmap-reload-8-slots", "more than 8 new slots after reloading under another asmap", hist);
            if (r.tried_slots.size() != s.tried_slots.size()) fail("asmap-reload-tried-lost", "tried entries were lost when reloading under another asmap (tried buckets do not depend on bucketing restore; universe has no tried collisions under the asmap)", hist);
            if (r.new_slots.size() < s.new_slots.size()) g_asmap_lost++;
            if (re->Size() != r.new_slots.size() + r.tried_slots.size()) fail("asmap-reload-size", "Size() disagrees with the tables after reloading under another asmap", hist);
        }
    }
}

bool g_skip_tried_loss_check = false;

// Replays hist; returns false if the last op is not enabled (e.g. the rng variant of an Add that draws no randomness).
bool replay_impl(const std::string& hist, std::string* key, bool probe)
{
    auto am = fresh();
    Model m;
    std::string slots;
    const size_t n = hist.size();
    for (size_t i = 0; i < n; i++) {
        const Op& o = OPS[(unsigned char)hist[i]];
        const bool last = (i + 1 == n);
        const bool chk = last && !probe;
        switch (o.t) {
        case ADD: {
            // does this Add draw randomness? only if the address is already in the new table with room for another reference
            auto pos = am->FindAddressEntry(CAddress{U[o.a].svc, NODE_NONE});
            Snap before;
            if (chk) before = quick_view(*am);
            CAddress a{U[o.a].svc, NODE_NETWORK};
            a.nTime = NOW + std::chrono::seconds{o.t_off};
            bool may_draw = pos && !pos->tried && pos->multiplicity > 0 && pos->multiplicity < ADDRMAN_NEW_BUCKETS_PER_ADDRESS;
            if (o.seed >= 0 && !may_draw) { if (last) return false; }
            if (o.seed < 0 && may_draw && o.src == 1) { if (last) return false; } // the variants with an explicit rng choice cover it
            reseed(*am, SEED[o.seed < 0 ? 0 : o.seed]);
            bool r = am->Add({a}, SRC[o.src], std::chrono::seconds{o.pen});
            m.added.insert(o.a);
            if (chk) {
                Snap after = quick_view(*am);
                bool stored = after.new_slots.count(o.a) || after.tried_slots.count(o.a);
                if (r && !stored) fail("add-true-not-stored", "Add() returned true but the address is not stored", hist);
                if (r && after.new_slots[o.a] <= (before.new_slots.count(o.a) ? before.new_slots[o.a] : 0)) fail("add-true-no-new-slot", "Add() returned true but the address did not gain a new-table slot", hist);
                if (!r && !stored && !before.new_slots.count(o.a) && !before.tried_slots.count(o.a)) g_add_rejected_collision++;
                for (auto& [j, cnt] : before.new_slots) if (j != o.a && !after.new_slots.count(j) && !after.tried_slots.count(j)) g_new_overwrite++;
            }
            break;
        }
        case GOOD: {
            Snap before;
            if (chk) before = quick_view(*am);
            bool r = am->Good(U[o.a].svc, NOW + std::chrono::seconds{o.t_off});
            m.gooded.insert(o.a);
            if (chk) {
                Snap after = quick_view(*am);
                if (r && !after.tried_slots.count(o.a)) fail("good-true-not-tried", "Good() returned true but the address is not in the tried table", hist);
                if (r && !before.new_slots.count(o.a)) fail("good-true-unknown", "Good() returned true for an address that was not in the new table", hist);
                if (!r && before.new_slots.count(o.a) && after.new_slots.count(o.a)) g_collision_pending++;
                for (auto& [j, c] : before.tried_slots) if (j != o.a && after.new_slots.count(j)) g_evicted_to_new++;
            }
            break;
        }
        case ATTEMPT: am->Attempt(U[o.a].svc, o.flag, NOW + std::chrono::seconds{o.t_off}); break;
        case CONNECTED: am->Connected(U[o.a].svc, NOW + std::chrono::seconds{o.t_off}); break;
        case SETSERV: am->SetServices(U[o.a].svc, ServiceFlags(NODE_NETWORK | NODE_WITNESS | NODE_P2P_V2)); break;
        case RESOLVE: {
            Snap before;
            size_t pending = 0;
            if (chk) { before = quick_view(*am); LOCK(am->m_impl->cs); pending = am->m_impl->m_tried_collisions.size(); }
            am->ResolveCollisions();
            if (chk) {
                Snap after = quick_view(*am);
                bool replaced = false;
                for (auto& [j, c] : before.tried_slots) if (!after.tried_slots.count(j)) {
                    replaced = true;
                    g_evicted_to_new += after.new_slots.count(j) ? 1 : 0;
                    for (auto& [k, c2] : after.tried_slots) if (!before.tried_slots.count(k) && U[k].svc.GetNetwork() != U[j].svc.GetNetwork()) {
                        Network in = U[k].svc.GetNetwork(), out = U[j].svc.GetNetwork();
                        g_cross_net_evict[out == NET_IPV4 ? 0 : in == NET_IPV4 && out == NET_IPV6 ? 1 : 2]++;
                    }
                }
                if (replaced) g_collision_replaced++;
                else if (pending) g_collision_kept++;
                for (auto& [j, c] : before.new_slots) if (!after.new_slots.count(j) && !after.tried_slots.count(j)) g_third_party_deleted++;
            }
            break;
        }
        case STC: {
            reseed(*am, SEED[o.seed]);
            auto [addr, t] = am->SelectTriedCollision();
            if (chk && addr.IsValid()) {
                g_stc_hit++;
                Snap s = quick_view(*am);
                int j = uidx(addr);
                if (j < 0 || !s.tried_slots.count(j)) fail("selecttriedcollision-not-tried", "SelectTriedCollision() returned an address that is not in the tried table", hist);
            }
            break;
        }
        case RELOAD: {
            std::string err;
            auto re = reload(*am, *NGM, &err);
            if (!re) { if (chk) fail("reload-failed", "Unserialize of a freshly serialized AddrMan failed: " + err, hist); return false; }
            am = std::move(re);
            if (chk) g_reload_ops++;
            break;
        }
        }
        if (chk) check_state(*am, m, hist, &slots);
    }
    if (probe) { probe_state(*am, hist); return true; }
    if (key) {
        if (n == 0) snapshot(*am, hist, false, &slots);
        *key = impl_key(*am, slots);
        *key += "|M:";
        for (int a : m.added) *key += std::to_string(a) + ",";
        *key += "/";
        for (int a : m.gooded) *key += std::to_string(a) + ",";
    }
    return true;
}
bool replay(const std::string& hist, std::string& key) { return replay_impl(hist, &key, false); }

// ------------------------------------------------------------------ universe search
CService ipv4(uint32_t ip, uint16_t port = 8333)
{
    in_addr a;
    a.s_addr = htonl(ip);
    return CService{CNetAddr{a}, port};
}
CNetAddr special(const std::string& s) { CNetAddr a; if (!a.SetSpecial(s)) { printf("HARNESS-ERROR cannot parse %s\n", s.c_str()); exit(2); } return a; }
CNetAddr bip155(uint8_t net, const std::vector<unsigned char>& bytes)
{
    DataStream s{};
    s << net << (uint8_t)bytes.size();
    s.write(MakeByteSpan(bytes));
    CNetAddr a;
    ParamsStream ps{s, CNetAddr::V2};
    ps >> a;
    return a;
}

struct Found { CService X, Y, Z, Z2; };
bool search(const CNetAddr& S1, Found& f)
{
    const uint256 key{1};
    // all candidates in 250.1.0.0/16 (one netgroup): tried bucket is one of 8, new bucket (source S1) one of 64
    struct Cand { CService s; int tb, tp, nb, np; };
    std::vector<Cand> c;
    for (uint32_t lo = 1; lo < 60000; lo++) {
        CService s = ipv4((250u << 24) | (1u << 16) | lo);
        AddrInfo info{CAddress{s, NODE_NONE}, S1};
        int tb = info.GetTriedBucket(key, *NGM), nb = info.GetNewBucket(key, *NGM);
        c.push_back(Cand{s, tb, info.GetBucketPosition(key, false, tb), nb, info.GetBucketPosition(key, true, nb)});
    }
    std::map<std::pair<int, int>, std::vector<int>> by_tried, by_new;
    for (size_t i = 0; i < c.size(); i++) { by_tried[{c[i].tb, c[i].tp}].push_back(i); by_new[{c[i].nb, c[i].np}].push_back(i); }
    // X: smallest index that has a tried-collision partner Y and two new-collision partners Z, Z2; under the asmap
    // netgroup manager X and Y must not collide in tried (so that the foreign-asmap reload keeps all tried entries)
    for (size_t i = 0; i < c.size(); i++) {
        auto& tv = by_tried[{c[i].tb, c[i].tp}];
        auto& nv = by_new[{c[i].nb, c[i].np}];
        if (tv.size() < 2 || nv.size() < 3) continue;
        int y = -1, z = -1, z2 = -1;
        for (int j : tv) if (j != (int)i) { y = j; break; }
        for (int j : nv) if (j != (int)i && j != y) { if (z < 0) z = j; else if (z2 < 0) z2 = j; }
        if (y < 0 || z2 < 0) continue;
        // Y, Z must not collide with each other's new slots (keeps the scenario readable)
        if (c[y].nb == c[i].nb && c[y].np == c[i].np) continue;
        f = Found{c[i].s, c[y].s, c[z].s, c[z2].s};
        return true;
    }
    return false;
}

// Cross-network tried collisions: an address of another network (IPv6 / Tor v3) that shares its tried slot with an
// IPv4 address out of 250.2.0.0/16 .. 250.61.0.0/16 (one /16 only reaches 8 of the 256 tried buckets).
std::pair<int, int> tried_slot(const CService& s, const NetGroupManager& ngm)
{
    AddrInfo info{CAddress{s, NODE_NONE}, SRC[0]};
    int b = info.GetTriedBucket(uint256{1}, ngm);
    return {b, info.GetBucketPosition(uint256{1}, false, b)};
}
bool find_cross(uint8_t bip155_net, size_t len, unsigned char tag, const std::vector<CService>& taken, CService& ipv4_out, CService& other_out)
{
    static std::map<std::pair<int, int>, CService> by_slot;
    if (by_slot.empty())
        for (uint32_t g = 2; g < 62; g++) // 60 netgroups x 500 hosts: covers most of the 256 x 64 tried slots
            for (uint32_t lo = 1; lo <= 500; lo++) { CService s = ipv4((250u << 24) | (g << 16) | lo); by_slot.emplace(tried_slot(s, *NGM), s); }
    for (unsigned k = 1; k < 5000; k++) {
        std::vector<unsigned char> b(len, tag);
        if (bip155_net == 2) { b[0] = 0x2a; b[1] = 0x01; b[2] = 0x04; b[3] = 0xf8; }
        b[len - 1] = (unsigned char)k; b[len - 2] = (unsigned char)(k >> 8);
        CService other{bip155(bip155_net, b), 8333};
        if (!other.IsRoutable()) continue;
        auto it = by_slot.find(tried_slot(other, *NGM));
        if (it == by_slot.end()) continue;
        // neither may share a tried slot with an address chosen earlier, with or without the test asmap
        bool clash = false;
        for (const NetGroupManager* ngm : {NGM.get(), NGM_ASMAP.get()})
            for (auto& t : taken)
                for (const CService* c : {&it->second, &other}) clash |= (tried_slot(*c, *ngm) == tried_slot(t, *ngm));
        if (clash || it->second == other) continue;
        bool used = false;
        for (auto& t : taken) used |= (t == it->second);
        if (used) continue;
        ipv4_out = it->second;
        other_out = other;
        return true;
    }
    return false;
}

struct Config { std::string name; std::vector<UAddr> u; std::vector<Op> ops; int depth; };

void add_ops_for(std::vector<Op>& ops, int a, bool rich)
{
    // first source: three ages (fresh, 30 min old, 40 days old = "terrible"), optional penalty; second source: fresh, with both rng outcomes
    ops.push_back(Op{ADD, a, 0, 0, 0, -1});
    ops.push_back(Op{ADD, a, 0, -1800, 0, -1});
    ops.push_back(Op{ADD, a, 0, -40 * 86400, 0, -1});
    if (rich) ops.push_back(Op{ADD, a, 0, 0, 7200, -1});
    ops.push_back(Op{ADD, a, 1, 0, 0, -1});
    ops.push_back(Op{ADD, a, 1, 0, 0, 0});
    ops.push_back(Op{ADD, a, 1, 0, 0, 1});
}

} // namespace

int run()
{
    auto& E = vx::ev();
    const bool big = vx::thorough();
    SetMockTime(NOW);
    // AddrManImpl is ~660 KB: keep such blocks in the malloc arenas instead of mmap/munmap per replay
    mallopt(M_MMAP_THRESHOLD, 16 << 20);
    mallopt(M_TRIM_THRESHOLD, 1 << 30);
    NGM = std::make_unique<NetGroupManager>(NetGroupManager::NoAsmap());
    {
        std::ifstream f("/repo/src/test/data/asmap.raw", std::ios::binary);
        std::vector<std::byte> bytes;
        char ch;
        while (f.get(ch)) bytes.push_back((std::byte)ch);
        if (!bytes.empty()) NGM_ASMAP = std::make_unique<NetGroupManager>(NetGroupManager::WithLoadedAsmap(std::move(bytes)));
        if (!NGM_ASMAP || NGM_ASMAP->GetAsmapVersion() == NGM->GetAsmapVersion()) { printf("HARNESS-ERROR could not load the test asmap\n"); return 2; }
    }
    SRC = {CNetAddr{ipv4((252u << 24) | (2u << 16) | (2u << 8) | 2u)}, CNetAddr{ipv4((251u << 24) | (77u << 16) | (3u << 8) | 9u)}};
    // rng seeds: first draw of randrange(2), randrange(4), randrange(8) all zero / all non-zero
    {
        int have = 0;
        bool got[2] = {false, false};
        for (int i = 1; i < 4000 && have < 2; i++) {
            uint256 s{(uint8_t)(i & 0xff)};
            *(s.begin() + 1) = (unsigned char)(i >> 8);
            uint64_t r2 = FastRandomContext{s}.randrange(2), r4 = FastRandomContext{s}.randrange(4), r8 = FastRandomContext{s}.randrange(8);
            bool zero = r2 == 0 && r4 == 0 && r8 == 0, nonzero = r2 != 0 && r4 != 0 && r8 != 0;
            if (zero && !got[0]) { SEED[0] = s; got[0] = true; have++; }
            if (nonzero && !got[1]) { SEED[1] = s; got[1] = true; have++; }
        }
        if (have < 2) { printf("HARNESS-ERROR rng seeds not found\n"); return 2; }
    }
    Found f;
    if (!search(SRC[0], f)) { printf("HARNESS-ERROR address universe with the required collisions not found\n"); return 2; }
    UAddr X{f.X, "X"}, Y{f.Y, "Y(tried-collides-with-X)"}, Z{f.Z, "Z(new-slot-of-X)"}, Z2{f.Z2, "Z2(new-slot-of-X)"};
    UAddr T{CService{special("pg6mmjiyjmcrsslvykfwnntlaru7p5svn6y2ymmju6nubxndf4pscryd.onion"), 8333}, "Tor"};
    UAddr I{CService{special("udhdrtrcetjm5sxzskjyr5ztpeszydbh4dpl3pl4utgqqw2v4jna.b32.i2p"), 0}, "I2P"};
    std::vector<unsigned char> cj(16, 0x11), v6(16, 0x22);
    cj[0] = 0xfc; v6[0] = 0x2a; v6[1] = 0x01; v6[2] = 0x04; v6[3] = 0xf8;
    UAddr C{CService{bip155(6, cj), 8333}, "CJDNS"}, V6{CService{bip155(2, v6), 8333}, "IPv6"};
    for (auto* u : {&X, &Y, &Z, &Z2, &T, &I, &C, &V6}) if (!u->svc.IsRoutable()) { printf("HARNESS-ERROR %s is not routable\n", u->name.c_str()); return 2; }
    if (C.svc.GetNetwork() != NET_CJDNS || T.svc.GetNetwork() != NET_ONION || I.svc.GetNetwork() != NET_I2P || V6.svc.GetNetwork() != NET_IPV6) { printf("HARNESS-ERROR network classes of the universe are wrong\n"); return 2; }

    UAddr P4, Q6, R4, O3;
    {
        std::vector<CService> taken{X.svc, Y.svc, Z.svc, Z2.svc, T.svc, I.svc, C.svc, V6.svc};
        CService a, b;
        if (!find_cross(2, 16, 0x33, taken, a, b)) { printf("HARNESS-ERROR no IPv4/IPv6 tried collision found\n"); return 2; }
        P4 = UAddr{a, "P4"}; Q6 = UAddr{b, "Q6(IPv6,tried-collides-with-P4)"};
        taken.push_back(a); taken.push_back(b);
        if (!find_cross(4, 32, 0x44, taken, a, b)) { printf("HARNESS-ERROR no IPv4/onion tried collision found\n"); return 2; }
        R4 = UAddr{a, "R4"}; O3 = UAddr{b, "Onion(tried-collides-with-R4)"};
        if (Q6.svc.GetNetwork() != NET_IPV6 || O3.svc.GetNetwork() != NET_ONION || P4.svc.GetNetwork() != NET_IPV4 || R4.svc.GetNetwork() != NET_IPV4) { printf("HARNESS-ERROR cross-network universe has wrong network classes\n"); return 2; }
        if (tried_slot(P4.svc, *NGM) != tried_slot(Q6.svc, *NGM) || tried_slot(R4.svc, *NGM) != tried_slot(O3.svc, *NGM)) { printf("HARNESS-ERROR cross-network pairs do not collide\n"); return 2; }
    }
    {   // under the foreign asmap no two universe addresses may share a tried slot (the reload probe relies on it),
        // except the designated pairs, which are never in the tried table together
        std::vector<const UAddr*> all{&X, &Y, &Z, &Z2, &T, &I, &C, &V6, &P4, &Q6, &R4, &O3};
        for (size_t i = 0; i < all.size(); i++)
            for (size_t j = i + 1; j < all.size(); j++) {
                bool pair = (all[i] == &X && all[j] == &Y) || (all[i] == &P4 && all[j] == &Q6) || (all[i] == &R4 && all[j] == &O3);
                if (!pair && tried_slot(all[i]->svc, *NGM_ASMAP) == tried_slot(all[j]->svc, *NGM_ASMAP)) { printf("HARNESS-ERROR universe addresses collide in tried under the test asmap\n"); return 2; }
            }
    }
    std::vector<Config> cfgs;
    {   // C: tried-table evictions that cross networks (IPv4 <-> IPv6, IPv4 <-> Tor): per-network counters
        Config c;
        c.name = "crossnet";
        c.u = {P4, Q6, R4, O3};
        for (int a = 0; a < 4; a++) {
            c.ops.push_back(Op{ADD, a, 0, 0, 0, -1});
            c.ops.push_back(Op{GOOD, a, 0, -5 * 3600}); // old enough to be replaced / to replace without a test
            c.ops.push_back(Op{GOOD, a, 0, 0});
        }
        { Op o{ATTEMPT, 0, 0, -2 * 3600}; o.flag = true; c.ops.push_back(o); }
        c.ops.push_back(Op{RESOLVE});
        c.ops.push_back(Op{STC, 0, 0, 0, 0, 0});
        c.ops.push_back(Op{RELOAD});
        c.depth = big ? 7 : 6;
        cfgs.push_back(c);
    }
    // A: tried collisions, test-before-evict, eviction back to new, deletion of the third party
    auto collisions = [&](const std::string& name, std::vector<UAddr> u, int depth) {
        Config c;
        c.name = name;
        c.u = u;
        for (int a = 0; a < (int)c.u.size(); a++) {
            c.ops.push_back(Op{ADD, a, 0, 0, 0, -1});
            c.ops.push_back(Op{ADD, a, 0, -40 * 86400, 0, -1});
            if (a != 1) { c.ops.push_back(Op{ADD, a, 0, -1800, 0, -1}); c.ops.push_back(Op{ADD, a, 1, 0, 0, 0}); }
            c.ops.push_back(Op{GOOD, a, 0, 0});
            c.ops.push_back(Op{GOOD, a, 0, -5 * 3600});
            if (a < 2) { Op o{ATTEMPT, a, 0, -2 * 3600}; o.flag = true; c.ops.push_back(o); Op o2{ATTEMPT, a, 0, 0}; o2.flag = true; c.ops.push_back(o2); }
        }
        c.ops.push_back(Op{CONNECTED, 0, 0, 0});
        c.ops.push_back(Op{RESOLVE});
        c.ops.push_back(Op{STC, 0, 0, 0, 0, 0});
        c.ops.push_back(Op{RELOAD});
        c.depth = depth;
        cfgs.push_back(c);
    };
    collisions("collisions", {X, Y, Z}, big ? 7 : 6);
    if (big) collisions("collisions4", {X, Y, Z, Z2}, 5);
    {   // B: all networks, multiple new-table references, services, terrible entries
        Config c;
        c.name = "networks";
        c.u = big ? std::vector<UAddr>{X, T, I, C, V6, Z} : std::vector<UAddr>{X, T, C, Z};
        for (int a = 0; a < (int)c.u.size(); a++) {
            add_ops_for(c.ops, a, big && a == 0);
            c.ops.push_back(Op{GOOD, a, 0, 0});
            if (a < 2) { Op o{ATTEMPT, a, 0, -2 * 3600}; o.flag = (a == 0); c.ops.push_back(o); }
        }
        c.ops.push_back(Op{SETSERV, 1});
        c.ops.push_back(Op{CONNECTED, 0, 0, 0});
        c.ops.push_back(Op{RELOAD});
        c.depth = big ? 5 : 4;
        cfgs.push_back(c);
    }
    int only = -1, depth_override = 0;
    if (vx::ctx().args.size() >= 1) only = atoi(vx::ctx().args[0].c_str());
    if (vx::ctx().args.size() >= 2) depth_override = atoi(vx::ctx().args[1].c_str());
    hb::describer() = describe;

    if (!vx::ctx().replay.empty()) {
        std::ifstream f(vx::ctx().replay);
        std::string line, hist, cfgname;
        while (std::getline(f, line)) {
            size_t q = line.find("config=");
            if (q != std::string::npos) cfgname = line.substr(q + 7, line.find(';', q) - q - 7);
            if (line.empty() || !isdigit((unsigned char)line[0])) continue;
            hist.push_back((char)atoi(line.c_str()));
        }
        for (auto& c : cfgs) if (c.name == cfgname) { U = c.u; OPS = c.ops; g_cfg_name = c.name; }
        if (OPS.empty()) { printf("HARNESS-ERROR replay file names no known config\n"); return 2; }
        printf("replaying %zu operations:\n%s", hist.size(), describe(hist).c_str());
        for (size_t i = 1; i <= hist.size(); i++) { std::string k; replay(hist.substr(0, i), k); replay_impl(hist.substr(0, i), nullptr, true); }
        printf("replay finished: %d violation(s)\n", vx::rep().violations);
        return vx::finish();
    }

    if (only == 99) { // micro-benchmark of the building blocks
        U = cfgs[0].u; OPS = cfgs[0].ops; g_cfg_name = cfgs[0].name;
        auto tm = [&](const char* n, int reps, auto fn) { double t0 = vx::elapsed(); for (int i = 0; i < reps; i++) fn(); printf("%-28s %8.1f us\n", n, (vx::elapsed() - t0) / reps * 1e6); };
        tm("construct+destroy", 2000, [&] { auto a = fresh(); });
        auto am = fresh();
        CAddress a{U[0].svc, NODE_NETWORK}; a.nTime = NOW;
        am->Add({a}, SRC[0], 0s);
        tm("Add existing", 2000, [&] { am->Add({a}, SRC[0], 0s); });
        tm("FindAddressEntry", 2000, [&] { am->FindAddressEntry(a); });
        tm("snapshot(private)", 2000, [&] { std::string sl; snapshot(*am, "", false, &sl); });
        tm("snapshot_public", 500, [&] { snapshot_public(*am, "", false); });
        tm("CheckAddrman", 500, [&] { check_code(*am); });
        Model m; m.added.insert(0);
        tm("check_state", 500, [&] { std::string sl; check_state(*am, m, "", &sl); });
        tm("impl_key", 2000, [&] { impl_key(*am, ""); });
        tm("reload", 200, [&] { std::string e; reload(*am, *NGM, &e); });
        tm("probe_state", 100, [&] { probe_state(*am, ""); });
        tm("Select(any)", 200, [&] { reseed(*am, SEED[0]); am->Select(false, {}); });
        tm("Select(new,ipv4)", 200, [&] { reseed(*am, SEED[1]); am->Select(true, {NET_IPV4}); });
        tm("GetAddr", 200, [&] { am->GetAddr(0, 0, std::nullopt, false); });
        am->Attempt(U[0].svc, true, NOW);
        tm("Select(any) recently tried", 200, [&] { reseed(*am, SEED[0]); am->Select(false, {}); });
        tm("probe_state recently tried", 50, [&] { probe_state(*am, ""); });
        std::string h; h.push_back(0); h.push_back(4); h.push_back(1);
        tm("replay depth3", 500, [&] { std::string k; replay(h, k); });
        return 0;
    }
    uint64_t states = 0, transitions = 0;
    bool complete = true;
    for (size_t ci = 0; ci < cfgs.size(); ci++) {
        if (only >= 0 && (int)ci != only) continue;
        if (vx::deadline_reached()) { complete = false; break; }
        Config& c = cfgs[ci];
        U = c.u; OPS = c.ops; g_cfg_name = c.name;
        hb::Bfs bfs;
        bfs.nops = (int)OPS.size();
        bfs.max_depth = depth_override ? depth_override : c.depth;
        bfs.replay = replay;
        bfs.keep_last_frontier = true; // the probes also run on the deepest states
        std::vector<std::string> fresh_states;
        std::map<int, int> per;
        bfs.on_new_state = [&](const std::string& h, int d) {
            fresh_states.push_back(h);
            if (h.empty() || d < 4) return;
            OpType lt = OPS[(unsigned char)h.back()].t;
            if ((lt != RESOLVE && lt != RELOAD && lt != ADD) || per[lt]++ >= 1) return;
            std::string s = "[" + c.name + "] ";
            for (unsigned char ch : h) s += op_str(OPS[ch]) + "; ";
            E.sample(s);
        };
        double t_a = vx::elapsed();
        bfs.run();
        double t_b = vx::elapsed();
        // probes (queries + serialization round trips) on every distinct state, in parallel
        std::atomic<bool> cut{false};
        // with violations already reported the manager is inconsistent and queries on it need not terminate
        if (vx::rep().violations == 0) vx::par_for(fresh_states.size(), 16, [&](uint64_t lo, uint64_t hi, unsigned) {
            for (uint64_t i = lo; i < hi; i++) {
                if (cut.load()) return;
                if (vx::deadline_reached()) { cut = true; return; }
                hb::t_cur = hb::Cur{&fresh_states[i], -1};
                replay_impl(fresh_states[i], nullptr, true);
            }
            hb::t_cur = hb::Cur{};
        });
        if (cut.load()) complete = false;
        printf("[%s] bfs %.1fs (%llu transitions), probes %.1fs (%zu states)\n", c.name.c_str(), t_b - t_a, (unsigned long long)bfs.transitions, vx::elapsed() - t_b, fresh_states.size());
        states += bfs.states;
        transitions += bfs.transitions;
        complete &= bfs.complete;
        std::string ls;
        for (auto v : bfs.level_states) ls += std::to_string(v) + " ";
        E.set(c.name + "_states", bfs.states);
        E.set(c.name + "_transitions", bfs.transitions);
        E.set(c.name + "_operations_in_alphabet", (uint64_t)OPS.size());
        E.set(c.name + "_max_depth_completed", (uint64_t)bfs.depth_done);
        E.set_str(c.name + "_new_states_per_depth", ls);
        std::string us;
        for (auto& u : U) us += u.name + "=" + u.svc.ToStringAddrPort() + " ";
        E.set_str(c.name + "_universe", us);
        if (hb::shared()) { hb::shared()->states = states; hb::shared()->transitions = transitions; }
        if (!bfs.complete) break;
    }
    E.states = states;
    E.transitions = transitions;
    E.traces_validated = transitions;
    E.exhaustive = complete;
    struct G { const char* n; uint64_t v; bool need; } gates[] = {
        {"address with >= 2 new-table slots", g_multi_ref, true}, {"address with >= 3 new-table slots", g_refcount_ge3, false}, {"address in tried", g_tried, true},
        {"Good() deferred by a tried collision", g_collision_pending, true}, {"ResolveCollisions replaced the old tried entry", g_collision_replaced, true}, {"ResolveCollisions kept the old tried entry / left it pending", g_collision_kept, true},
        {"tried entry moved back to the new table", g_evicted_to_new, true}, {"uninvolved new-table address deleted by a collision resolution", g_third_party_deleted, true},
        {"new-table entry overwritten by Add", g_new_overwrite, true}, {"Add rejected because the slot is occupied", g_add_rejected_collision, true},
        {"RELOAD operations", g_reload_ops, true}, {"round-trip probes", g_reload_probes, true}, {"foreign-asmap reloads", g_asmap_reloads, true}, {"foreign-asmap reload dropped new entries", g_asmap_lost, false},
        {"Select returned an address", g_select_hits, true}, {"Select returned nothing", g_select_empty, true}, {"GetAddr filtered out a terrible entry", g_terrible_filtered, true}, {"SelectTriedCollision returned an address", g_stc_hit, true},
        {"tried eviction: IPv4 entry replaced by an entry of another network", g_cross_net_evict[0], true}, {"tried eviction: IPv6 entry replaced by an IPv4 entry", g_cross_net_evict[1], true}, {"tried eviction: Tor entry replaced by an IPv4 entry", g_cross_net_evict[2], true},
        {"onion stored", g_net_seen[NET_ONION], true}, {"cjdns stored", g_net_seen[NET_CJDNS], true}, {"i2p stored", g_net_seen[NET_I2P], big}, {"ipv6 stored", g_net_seen[NET_IPV6], big}};
    for (auto& g : gates) E.set(std::string("n: ") + g.n, g.v);
    E.rule = "one BFS per configuration (see <config>_universe, _operations_in_alphabet, _max_depth_completed): all histories of {Add (3-4 nTime/penalty variants, 2 sources, both outcomes of the stochastic extra-bucket draw), Good(time NOW / NOW-5h), Attempt, Connected, SetServices, ResolveCollisions, SelectTriedCollision, serialize+Unserialize and continue} at a fixed mock time; "
             "states merged on the manager's complete entry table (per address: table, reference count, occupied new slots, nTime, services, source, last try/count/success, attempts), pending tried collisions and m_last_good; after every history CheckAddrman + table/size/FindAddressEntry invariants; on every distinct state GetAddr/Select probes and two serialization round trips (same and foreign asmap)";
    E.assume("mock time is fixed; ageing is expressed through the time arguments of Add/Good/Attempt (NOW, NOW-30min, NOW-2h, NOW-5h, NOW-40d), which reaches every branch of IsTerrible and ResolveCollisions");
    E.assume("states are merged ignoring vRandom order, nId numbering and the RNG position: every operation that draws randomness reseeds the RNG first, and the order of vRandom / ids is treated as unobservable");
    if (complete && only < 0 && vx::rep().violations == 0)
        for (auto& g : gates) if (g.need && g.v == 0) { printf("HARNESS-ERROR vacuous: never observed '%s'\n", g.n); vx::write_evidence(); return 2; }
    return vx::finish();
}

int main(int argc, char** argv)
{
    vx::init(argc, argv, "C37", "model_checking");
    return hb::guarded(run);
}
