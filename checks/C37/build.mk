LINK := full
