// C21 — Indexes and UTXO statistics agree with recomputation from the active chain.
// VX-STATE by history replay on ck::Node with txindex, blockfilterindex, coinstatsindex and txospenderindex
// attached (on-disk index databases in the node's tmpfs datadir, Sync() driven synchronously — no index thread).
// BFS over event histories with canonical-state merging; every replay runs in one of W persistent worker
// processes (forked before any node exists). Oracles are recomputed from ck::RefLedger + the blocks the harness
// built: BIP158 reference encoder (as in C51), from-scratch MuHash over the reference UTXO set, plain maps.
// This binary is the producer for check.py (which adds the Python muhash.py reference); it prints CXXVIOL / MH / US /
// STATS lines and never writes evidence itself.
#include <vx/vx.h>
#include <kits/chainkit.h>

#include <blockfilter.h>
#include <chainparams.h>
#include <crypto/muhash.h>
#include <crypto/sha256.h>
#include <index/blockfilterindex.h>
#include <index/coinstatsindex.h>
#include <index/txindex.h>
#include <index/txindex_key.h>
#include <index/txospenderindex.h>
#include <interfaces/chain.h>
#include <kernel/coinstats.h>
#include <logging.h>
#include <streams.h>
#include <util/time.h>

#include <poll.h>
#include <signal.h>
#include <sys/wait.h>

using Bytes = std::vector<unsigned char>;
static std::string S(uint64_t v) { return std::to_string(v); }
static std::string esc(const std::string& s)
{
    std::string o;
    for (char c : s) { if (c == '\n') o += "\\n"; else if (c == '\t') o += ' '; else o += c; }
    return o;
}

// ------------------------------------------------------------------------------------------------ BIP158 reference (see C51)
static inline uint64_t rotl64(uint64_t x, int b) { return (x << b) | (x >> (64 - b)); }
static uint64_t ref_siphash(uint64_t k0, uint64_t k1, const Bytes& m)
{
    uint64_t v0 = 0x736f6d6570736575ULL ^ k0, v1 = 0x646f72616e646f6dULL ^ k1, v2 = 0x6c7967656e657261ULL ^ k0, v3 = 0x7465646279746573ULL ^ k1;
    auto round = [&] {
        v0 += v1; v1 = rotl64(v1, 13); v1 ^= v0; v0 = rotl64(v0, 32);
        v2 += v3; v3 = rotl64(v3, 16); v3 ^= v2;
        v0 += v3; v3 = rotl64(v3, 21); v3 ^= v0;
        v2 += v1; v1 = rotl64(v1, 17); v1 ^= v2; v2 = rotl64(v2, 32);
    };
    size_t n = m.size(), i = 0;
    for (; i + 8 <= n; i += 8) {
        uint64_t w = 0;
        for (int j = 0; j < 8; j++) w |= (uint64_t)m[i + j] << (8 * j);
        v3 ^= w; round(); round(); v0 ^= w;
    }
    uint64_t b = (uint64_t)(n & 0xff) << 56;
    for (int j = 0; i + j < n; j++) b |= (uint64_t)m[i + j] << (8 * j);
    v3 ^= b; round(); round(); v0 ^= b;
    v2 ^= 0xff; round(); round(); round(); round();
    return v0 ^ v1 ^ v2 ^ v3;
}
static Bytes ref_basic_filter(const uint256& block_hash, const std::set<Bytes>& elems)
{
    uint64_t k0 = 0, k1 = 0;
    for (int i = 0; i < 8; i++) { k0 |= (uint64_t)block_hash.begin()[i] << (8 * i); k1 |= (uint64_t)block_hash.begin()[8 + i] << (8 * i); }
    const uint64_t N = elems.size(), F = N * 784931ULL;
    const int P = 19;
    std::vector<uint64_t> hs;
    for (auto& e : elems) hs.push_back((uint64_t)(((unsigned __int128)ref_siphash(k0, k1, e) * F) >> 64));
    std::sort(hs.begin(), hs.end());
    Bytes out;
    if (N < 253) out.push_back((unsigned char)N);
    else { out.push_back(253); out.push_back(N & 0xff); out.push_back(N >> 8); }
    std::vector<bool> bits;
    uint64_t last = 0;
    for (uint64_t v : hs) {
        uint64_t d = v - last;
        last = v;
        for (uint64_t q = d >> P; q > 0; q--) bits.push_back(true);
        bits.push_back(false);
        for (int i = P - 1; i >= 0; i--) bits.push_back((d >> i) & 1);
    }
    for (size_t i = 0; i < bits.size(); i += 8) {
        unsigned char c = 0;
        for (size_t j = 0; j < 8 && i + j < bits.size(); j++) if (bits[i + j]) c |= 0x80 >> j;
        out.push_back(c);
    }
    return out;
}
static uint256 sha256d(const unsigned char* p, size_t n)
{
    uint256 a, b;
    CSHA256().Write(p, n).Finalize(a.begin());
    CSHA256().Write(a.begin(), 32).Finalize(b.begin());
    return b;
}

// coin serialisation hashed into MuHash (kernel/coinstats.cpp TxOutSer): outpoint | u32(height*2+coinbase) | value | script
static Bytes coin_ser(const COutPoint& op, const ck::RefCoin& c)
{
    const uint256 th = op.hash.ToUint256();
    Bytes b(th.begin(), th.end());
    auto le = [&](uint64_t v, int n) { for (int i = 0; i < n; i++) b.push_back(v >> (8 * i) & 0xff); };
    le(op.n, 4);
    le((uint32_t)(c.height * 2 + (c.coinbase ? 1 : 0)), 4);
    le((uint64_t)c.value, 8);
    size_t L = c.spk.size();
    if (L < 253) b.push_back((unsigned char)L); else { b.push_back(253); le(L, 2); }
    b.insert(b.end(), c.spk.begin(), c.spk.end());
    return b;
}

// ------------------------------------------------------------------------------------------------ the simulated node + indexes
static const int BASE_BLOCKS = 102;
static const char* EVENTS = "abe123iftsk"; // connect kinds a,b,e; reorg depth 1,2,3; invalidate tip; flush; toggle indexes; sync; interrupted sync + restart

struct RefStats {
    uint256 muhash;
    uint64_t count = 0, bogo = 0;
    CAmount amount = 0, subsidy = 0, prevout_spent = 0, new_outputs = 0, coinbase = 0, u_genesis = 0, u_scripts = 0, u_unclaimed = 0;
    Bytes filter;
    uint256 filter_hash, filter_header;
};

struct Out {
    std::vector<std::string> lines; // V / U lines for the parent
    uint64_t evals = 0, tx_found = 0, spenders = 0, filters = 0, stats = 0, neg_spender = 0, stale_tx = 0, rewinds_seen = 0, behind_seen = 0, ahead_seen = 0;
    bool full_check = false;
};

struct Sim {
    ck::Node n;
    ck::RefLedger L;
    uint256 base_tip;
    int base_height = 0;
    std::unique_ptr<TxIndex> txi;
    std::unique_ptr<BlockFilterIndex> bfi;
    std::unique_ptr<CoinStatsIndex> csi;
    std::unique_ptr<TxoSpenderIndex> spi;
    std::string down_memo = "never-up";
    std::map<uint256, RefStats>& stats_cache;
    std::string hist;
    Out& out;
    static std::set<uint256>& emitted() { static std::set<uint256> s; return s; } // per worker process: US lines already sent

    // Per worker process: the 102-block base chain with all four indexes synced and committed is built once in an
    // on-disk datadir; every replay starts from a copy of that directory (a real restart of node + indexes).
    struct Base { std::string dir; ck::RefLedger L; uint256 tip; int height = 0; };
    static ck::NodeOpts disk_opts(const std::string& dir)
    {
        ck::NodeOpts o;
        o.datadir = dir;
        o.coins_db_in_memory = false;
        o.block_tree_db_in_memory = false;
        o.extra_args = {"-checkblocks=1", "-checklevel=0", "-fastprune"};
        return o;
    }
    static Base& base()
    {
        static Base b = [] {
            Base x;
            x.dir = std::string(getenv("TMPDIR")) + "/base";
            SetMockTime(int64_t{1296688602} /* regtest genesis time */ + 600 * 100000);
            {
                ck::Node n(disk_opts(x.dir));
                x.L.AddGenesis(Params().GenesisBlock());
                ck::MineEmpty(n, x.L, BASE_BLOCKS);
                x.tip = n.tip()->GetBlockHash();
                x.height = n.height();
                n.Flush();
                auto mk = [&] { return interfaces::MakeChain(n.m_node); };
                TxIndex a(mk(), 1 << 20, false, false);
                BlockFilterIndex b2(mk(), BlockFilterType::BASIC, 1 << 20, false, false);
                CoinStatsIndex c(mk(), 1 << 20, false, false);
                TxoSpenderIndex d(mk(), 1 << 20, false, false);
                for (BaseIndex* i : std::vector<BaseIndex*>{&a, &b2, &c, &d}) { if (!i->Init()) throw std::runtime_error("base index init"); i->Sync(); }
                // a flush makes the indexes commit their best block (ChainStateFlushed); force one even though nothing is dirty
                n.Flush();
                for (BaseIndex* i : std::vector<BaseIndex*>{&a, &b2, &c, &d}) { i->Commit(); if (i->GetDB().ReadBestBlock().IsNull()) throw std::runtime_error("base index did not commit"); }
            }
            return x;
        }();
        return b;
    }
    static ck::NodeOpts prep()
    {
        Base& b = base();
        const std::string run = std::string(getenv("TMPDIR")) + "/run";
        std::error_code ec;
        std::filesystem::remove_all(run, ec);
        std::filesystem::copy(b.dir, run, std::filesystem::copy_options::recursive);
        SetMockTime(int64_t{1296688602} /* regtest genesis time */ + 600 * 100000);
        return disk_opts(run);
    }
    static std::map<uint256, RefStats>& stats_cache_ref() { static std::map<uint256, RefStats> m; return m; } // pure function of the block hash: shared by all replays of this process

    explicit Sim(Out& o) : n(prep()), L(base().L), stats_cache(stats_cache_ref()), out(o)
    {
        base_tip = base().tip;
        base_height = base().height;
        if (n.tip()->GetBlockHash() != base_tip) throw std::runtime_error("restarted node is not at the base tip");
        up();
        if (!all_synced()) fail("index-reopen-base-not-synced", "indexes re-opened on the committed base datadir do not report synced");
    }
    ~Sim() { down(); }

    void fail(std::string key, const std::string& what)
    {
        for (char& c : key) if (c == ' ' || c == '\t') c = '_'; // keys are single tokens (known_findings.txt)
        out.lines.push_back("V\t" + esc(key) + "\t" + esc(what + " after history [" + hist + "]") + "\t" + esc("history " + hist));
    }
    // blocks whose index records were written but can never be rewound any more: they had been appended when the index
    // objects were destroyed, and were not on the chain of the block the re-opened index started from (known finding)
    std::set<uint256> orphaned_records;

    std::vector<BaseIndex*> all() { return {txi.get(), bfi.get(), csi.get(), spi.get()}; }
    bool is_up() const { return (bool)txi; }
    void up()
    {
        auto mk = [&] { return interfaces::MakeChain(n.m_node); };
        txi = std::make_unique<TxIndex>(mk(), 1 << 20, false, false);
        bfi = std::make_unique<BlockFilterIndex>(mk(), BlockFilterType::BASIC, 1 << 20, false, false);
        csi = std::make_unique<CoinStatsIndex>(mk(), 1 << 20, false, false);
        spi = std::make_unique<TxoSpenderIndex>(mk(), 1 << 20, false, false);
        for (BaseIndex* i : all()) {
            const CBlockLocator loc = i->GetDB().ReadBestBlock();
            if (i->Init()) continue;
            // known finding: BlockFilterIndex cannot re-open when its committed best block has been reorganised away and the
            // height entry was overwritten before the next commit. Everything else is unexplained.
            bool off_chain = false;
            if (!loc.IsNull()) {
                LOCK(cs_main);
                const CBlockIndex* bi = n.chainman().m_blockman.LookupBlockIndex(loc.vHave.at(0));
                off_chain = bi && !n.cs().m_chain.Contains(*bi);
            }
            if (i == bfi.get() && off_chain) fail("index-init-fails:blockfilter", "Init() of " + i->GetName() + " fails on its own database: committed best block is no longer in the active chain and its height entry was overwritten");
            else fail("index-init-fails-unexplained:" + i->GetName(), "Init() of " + i->GetName() + " failed on its own database");
        }
        if (spi->m_init) {
            // relative to the *committed* best block: only appends beyond the commit are the known mechanism; a committed
            // block that is reorganised away must be rewound by the index itself
            const CBlockLocator sloc = spi->GetDB().ReadBestBlock();
            LOCK(cs_main);
            const CBlockIndex* best = sloc.IsNull() ? nullptr : n.chainman().m_blockman.LookupBlockIndex(sloc.vHave.at(0));
            for (auto& [hsh, rb] : L.blocks) {
                if (rb.height <= base_height || !txi->GetDB().Exists(txindex::BlockHashKey{hsh})) continue;
                const CBlockIndex* bi = n.chainman().m_blockman.LookupBlockIndex(hsh);
                if (bi && !(best && best->GetAncestor(bi->nHeight) == bi)) orphaned_records.insert(hsh);
            }
        }
    }
    void down()
    {
        if (!is_up()) return;
        down_memo = index_key();
        spi.reset(); csi.reset(); bfi.reset(); txi.reset();
    }
    bool all_synced() { for (BaseIndex* i : all()) if (!i->m_synced) return false; return true; }
    void sync_all() { for (BaseIndex* i : all()) if (i->m_init) i->Sync(); }

    // ---------------------------------------------------------------- deterministic blocks: pure function of (parent, kind, nonce)
    CBlock build(const uint256& parent, char kind, int nonce)
    {
        const CBlockIndex* pi = n.index_of(parent);
        auto u = L.UtxoAt(parent);
        const int height = L.Height(parent) + 1;
        std::vector<CTransactionRef> txs;
        ck::BlockOpts bo;
        bo.extra_nonce = nonce;
        if (kind != 'e') {
            // oldest mature coinbase coin
            const COutPoint* best = nullptr;
            int besth = 1 << 30;
            for (auto& [op, c] : *u) if (c.coinbase && height - c.height >= 100 && c.height < besth) { best = &op; besth = c.height; }
            if (best) {
                const CAmount v = u->at(*best).value;
                CScript p2pkh = CScript() << OP_DUP << OP_HASH160 << std::vector<unsigned char>(20, 0x42) << OP_EQUALVERIFY << OP_CHECKSIG;
                CScript opret = CScript() << OP_RETURN << std::vector<unsigned char>{'v', 'x'};
                CTransactionRef t1 = MakeTransactionRef(ck::MakeTx({{*best}}, {{10 * COIN, ck::OpTrueSpk()}, {20 * COIN, ck::OpTrueSpk()}, {1000, opret}, {v - 30 * COIN - 1000 - 5000, p2pkh}}));
                txs.push_back(t1);
                if (kind == 'a') txs.push_back(ck::SpendTx({COutPoint(t1->GetHash(), 0)}, {5 * COIN, 5 * COIN - 10000}));
                else {
                    txs.push_back(ck::SpendTx({COutPoint(t1->GetHash(), 1)}, {20 * COIN - 2000}));
                    // lowest non-coinbase OP_TRUE coin already in the parent's UTXO set
                    for (auto& [op, c] : *u) if (!c.coinbase && c.spk == ck::OpTrueSpk()) { txs.push_back(ck::SpendTx({op}, {c.value / 2, c.value / 2 - 3000})); break; }
                }
            }
            CAmount fees = *L.Fees(parent, txs);
            CAmount sub = ck::RefLedger::Subsidy(height, Params().GetConsensus().nSubsidyHalvingInterval);
            if (kind == 'a') bo.coinbase_value = sub + fees - 7;                 // 7 sat unclaimed
            else { bo.coinbase_value = sub + fees - 3; bo.extra_coinbase_outputs.push_back({3, CScript() << OP_RETURN}); }
        }
        CBlock b = ck::MakeBlock(n, pi, txs, bo);
        L.Add(b);
        return b;
    }

    void apply(char ev)
    {
        hist.push_back(ev);
        const uint256 tip = n.tip()->GetBlockHash();
        const int h = n.height();
        switch (ev) {
        case 'a': case 'b': case 'e': n.ProcessBlock(build(tip, ev, 0)); break;
        case '1': case '2': case '3': {
            int d = ev - '0';
            if (h - base_height < d) break;
            uint256 fork = n.tip()->GetAncestor(h - d)->GetBlockHash();
            uint256 p = fork;
            for (int i = 0; i <= d; i++) { CBlock b = build(p, i == 0 ? 'b' : 'e', 10 + d); n.ProcessBlock(b); p = b.GetHash(); }
            break;
        }
        case 'i': if (h > base_height) n.Invalidate(tip); break;
        case 'f': n.Flush(); break;
        case 't': if (is_up()) down(); else up(); break;
        case 's': if (is_up()) sync_all(); break;
        case 'k':
            if (is_up() && !all_synced()) {
                for (BaseIndex* i : all()) if (i->m_init && !i->m_synced) { i->Interrupt(); i->Sync(); }
                down();
                up();
            }
            break;
        }
    }
    // does the event change anything in this state? (prunes no-op transitions)
    bool enabled(char ev)
    {
        const int h = n.height();
        switch (ev) {
        case '1': case '2': case '3': return h - base_height >= ev - '0';
        case 'i': return h > base_height;
        case 'f': { LOCK(cs_main); return n.cs().GetLastFlushedBlock() != n.cs().m_chain.Tip(); }
        case 's': case 'k': return is_up() && !all_synced();
        }
        return true;
    }

    // ---------------------------------------------------------------- canonical key
    std::string index_key()
    {
        std::string k;
        for (BaseIndex* i : all()) {
            const CBlockIndex* b = i->m_best_block_index.load();
            CBlockLocator loc = i->GetDB().ReadBestBlock();
            k += std::string(i->m_synced ? "S" : "u") + (b ? b->GetBlockHash().ToString().substr(0, 10) : "null") + "/" + (loc.IsNull() ? "null" : loc.vHave[0].ToString().substr(0, 10)) + ",";
        }
        k += "app:";
        for (auto& [hsh, rb] : L.blocks) if (rb.height > base_height && txi->GetDB().Exists(txindex::BlockHashKey{hsh})) k += hsh.ToString().substr(0, 8) + ".";
        return k;
    }
    std::string key()
    {
        std::string k = "tip=" + n.tip()->GetBlockHash().ToString().substr(0, 12) + "|blocks=";
        {
            LOCK(cs_main);
            for (auto& [hsh, rb] : L.blocks) if (rb.height > base_height) {
                const CBlockIndex* bi = n.chainman().m_blockman.LookupBlockIndex(hsh);
                k += hsh.ToString().substr(0, 8) + (bi ? ((bi->nStatus & BLOCK_FAILED_VALID) ? "!" : (bi->nStatus & BLOCK_HAVE_DATA) ? "+" : "h") : "?") + ".";
            }
            const CBlockIndex* lf = n.cs().GetLastFlushedBlock();
            k += "|flushed=" + (lf ? lf->GetBlockHash().ToString().substr(0, 10) : std::string("null"));
        }
        k += is_up() ? "|up:" + index_key() : "|down:" + down_memo;
        return k;
    }

    // ---------------------------------------------------------------- reference values per block (functions of the block hash)
    const RefStats& ref_stats(const uint256& hsh)
    {
        auto it = stats_cache.find(hsh);
        if (it != stats_cache.end()) return it->second;
        const ck::RefBlock& rb = L.blocks.at(hsh);
        RefStats s;
        RefStats prev;
        if (rb.height > 0) prev = ref_stats(rb.prev);
        s = prev;
        const CAmount sub = ck::RefLedger::Subsidy(rb.height, Params().GetConsensus().nSubsidyHalvingInterval);
        s.subsidy += sub;
        std::set<Bytes> elems;
        auto unspendable = [](const CScript& sc) { return (sc.size() > 0 && sc[0] == OP_RETURN) || sc.size() > 10000; };
        if (rb.height == 0) s.u_genesis += sub;
        std::shared_ptr<const ck::RefUtxo> pu = rb.height > 0 ? L.UtxoAt(rb.prev) : nullptr;
        ck::RefUtxo view = pu ? *pu : ck::RefUtxo{};
        __int128 in_total = 0, out_total = 0;
        for (size_t ti = 0; ti < rb.block.vtx.size(); ti++) {
            const CTransaction& tx = *rb.block.vtx[ti];
            for (size_t k = 0; k < tx.vout.size(); k++) {
                const CTxOut& o = tx.vout[k];
                if (!o.scriptPubKey.empty() && o.scriptPubKey[0] != OP_RETURN) elems.insert(Bytes(o.scriptPubKey.begin(), o.scriptPubKey.end()));
                if (rb.height == 0) continue;
                out_total += o.nValue;
                if (unspendable(o.scriptPubKey)) s.u_scripts += o.nValue;
                else if (ti == 0) s.coinbase += o.nValue;
                else s.new_outputs += o.nValue;
                if (!unspendable(o.scriptPubKey)) view[COutPoint(tx.GetHash(), k)] = ck::RefCoin{o.nValue, o.scriptPubKey, rb.height, ti == 0};
            }
            if (ti > 0)
                for (auto& i : tx.vin) {
                    const ck::RefCoin& c = view.at(i.prevout);
                    if (!c.spk.empty()) elems.insert(Bytes(c.spk.begin(), c.spk.end()));
                    s.prevout_spent += c.value;
                    in_total += c.value;
                    view.erase(i.prevout);
                }
        }
        if (rb.height > 0) s.u_unclaimed += (CAmount)(sub + in_total - out_total);
        // UTXO set statistics from the reference ledger's own replay
        auto u = L.UtxoAt(hsh);
        MuHash3072 mh;
        s.count = 0; s.amount = 0; s.bogo = 0;
        for (auto& [op, c] : *u) {
            Bytes ser = coin_ser(op, c);
            mh.Insert(ser);
            s.count++;
            s.amount += c.value;
            s.bogo += 32 + 4 + 4 + 8 + 2 + c.spk.size();
        }
        mh.Finalize(s.muhash);
        s.filter = ref_basic_filter(hsh, elems);
        s.filter_hash = sha256d(s.filter.data(), s.filter.size());
        unsigned char buf[64];
        memcpy(buf, s.filter_hash.begin(), 32);
        memcpy(buf + 32, prev.filter_header.begin(), 32); // all-zero before genesis
        s.filter_header = sha256d(buf, 64);
        return stats_cache[hsh] = s;
    }

    // ---------------------------------------------------------------- oracle
    void check()
    {
        if (!is_up()) return;
        if (!all_synced()) { out.behind_seen++; return; }
        for (BaseIndex* i : all())
            if (!i->BlockUntilSyncedToCurrentChain()) fail("index-not-synced-" + i->GetName(), i->GetName() + " has m_synced but BlockUntilSyncedToCurrentChain() is false");
        out.full_check = true;
        std::vector<const CBlockIndex*> chain;
        {
            LOCK(cs_main);
            for (const CBlockIndex* p = n.cs().m_chain.Tip(); p; p = p->pprev) chain.push_back(p);
        }
        std::reverse(chain.begin(), chain.end());
        const CBlockIndex* tip = chain.back();
        const bool at_tip = txi->m_best_block_index.load() == tip && spi->m_best_block_index.load() == tip;
        if (!at_tip) out.ahead_seen++;
        std::map<Txid, uint256> active_tx;                       // txid -> active block
        std::map<COutPoint, std::pair<Wtxid, uint256>> spender; // outpoint -> (spender, block)
        for (const CBlockIndex* bi : chain) {
            const uint256 hsh = bi->GetBlockHash();
            if (!L.Known(hsh)) { fail("harness-unknown-block", "active block unknown to the harness"); return; }
            const CBlock& blk = L.blocks.at(hsh).block;
            const RefStats& rs = ref_stats(hsh);
            // ---- block filter index
            BlockFilter f;
            uint256 fh;
            out.evals += 2;
            if (!bfi->LookupFilter(bi, f)) fail("filter-missing", "blockfilterindex has no filter for active block at height " + S(bi->nHeight));
            else if (f.GetEncodedFilter() != rs.filter || f.GetBlockHash() != hsh) fail("filter-content", "blockfilterindex filter for active block at height " + S(bi->nHeight) + " differs from the BIP158 recomputation: got " + vx::hex(f.GetEncodedFilter()) + " want " + vx::hex(rs.filter));
            else out.filters++;
            if (!bfi->LookupFilterHeader(bi, fh)) fail("filter-header-missing", "blockfilterindex has no filter header at height " + S(bi->nHeight));
            else if (fh != rs.filter_header) fail("filter-header", "filter header at height " + S(bi->nHeight) + " differs from sha256d(filter_hash || previous header) along the active chain");
            // ---- coin stats index
            out.evals++;
            auto st = csi->LookUpStats(*bi);
            if (!st) fail("coinstats-missing", "coinstatsindex has no entry for active block at height " + S(bi->nHeight));
            else {
                auto cmp = [&](const char* name, int64_t got, int64_t want) {
                    if (got != want) fail(std::string("coinstats-") + name, std::string("coinstatsindex ") + name + " at height " + S(bi->nHeight) + " is " + std::to_string(got) + ", recomputation from the active chain gives " + std::to_string(want));
                };
                if (st->hashSerialized != rs.muhash) fail("coinstats-muhash", "coinstatsindex MuHash at height " + S(bi->nHeight) + " differs from the from-scratch MuHash of the reference UTXO set");
                cmp("txouts", st->nTransactionOutputs, rs.count);
                cmp("bogosize", st->nBogoSize, rs.bogo);
                cmp("total_amount", st->total_amount ? *st->total_amount : -1, rs.amount);
                cmp("total_subsidy", st->total_subsidy, rs.subsidy);
                cmp("prevout_spent", (int64_t)st->total_prevout_spent_amount.GetLow64(), rs.prevout_spent);
                cmp("new_outputs_ex_coinbase", (int64_t)st->total_new_outputs_ex_coinbase_amount.GetLow64(), rs.new_outputs);
                cmp("coinbase_amount", (int64_t)st->total_coinbase_amount.GetLow64(), rs.coinbase);
                cmp("unspendables_genesis", st->total_unspendables_genesis_block, rs.u_genesis);
                cmp("unspendables_bip30", st->total_unspendables_bip30, 0);
                cmp("unspendables_scripts", st->total_unspendables_scripts, rs.u_scripts);
                cmp("unspendables_unclaimed", st->total_unspendables_unclaimed_rewards, rs.u_unclaimed);
                out.stats++;
                if (bi->nHeight > base_height && emitted().insert(hsh).second) {
                    std::string l = "U\t" + hsh.ToString() + "\t" + st->hashSerialized.ToString() + "\t";
                    for (auto& [op, c] : *L.UtxoAt(hsh)) l += vx::hex(coin_ser(op, c)) + ",";
                    out.lines.push_back(l);
                }
            }
            if (bi->nHeight == 0) continue;
            for (auto& tx : blk.vtx) {
                active_tx[tx->GetHash()] = hsh;
                if (!tx->IsCoinBase()) for (auto& in : tx->vin) spender[in.prevout] = {tx->GetWitnessHash(), hsh};
            }
        }
        // ---- txindex over every transaction the harness ever put into a block; spender index over every outpoint
        std::set<COutPoint> universe;
        for (auto& [hsh, rb] : L.blocks) {
            if (rb.height <= base_height - 3 && rb.height != 1) continue; // base-chain coinbases: a sample (height 1 and the last 3)
            for (auto& tx : rb.block.vtx) {
                if (rb.height == 0) continue;
                for (size_t k = 0; k < tx->vout.size(); k++) universe.insert(COutPoint(tx->GetHash(), k));
                for (auto& in : tx->vin) if (!in.prevout.IsNull()) universe.insert(in.prevout);
                out.evals++;
                auto r = txi->FindTx(tx->GetHash());
                auto a = active_tx.find(tx->GetHash());
                if (a != active_tx.end()) {
                    if (!r) fail("txindex-missing", "txindex does not find active-chain transaction " + tx->GetHash().ToString().substr(0, 12) + " (block height " + S(L.Height(a->second)) + ")");
                    else if (r->block_hash != a->second) fail("txindex-stale-block", "txindex returns block " + r->block_hash.ToString().substr(0, 12) + " for a transaction whose active-chain block is " + a->second.ToString().substr(0, 12));
                    else if (r->tx->GetWitnessHash() != tx->GetWitnessHash()) fail("txindex-wrong-tx", "txindex returns a different transaction");
                    else out.tx_found++;
                } else if (r) {
                    // not in the active chain: a stale answer must at least be a block that really contains it
                    out.stale_tx++;
                    bool ok = L.Known(r->block_hash) && r->tx->GetHash() == tx->GetHash();
                    if (ok) { ok = false; for (auto& t : L.blocks.at(r->block_hash).block.vtx) if (t->GetHash() == tx->GetHash()) ok = true; }
                    if (!ok) fail("txindex-bogus", "txindex returns a block that does not contain the requested transaction");
                }
            }
        }
        for (auto& op : universe) {
            out.evals++;
            auto r = spi->FindSpender(op);
            auto s = spender.find(op);
            if (!r) { fail("spender-error", "txospenderindex lookup error: " + r.error()); continue; }
            if (s != spender.end()) {
                if (!r->has_value()) fail("spender-missing", "txospenderindex has no spender for an outpoint spent in the active chain (block height " + S(L.Height(s->second.second)) + ")");
                else if ((*r)->tx->GetWitnessHash() != s->second.first) fail("spender-wrong-tx", "txospenderindex returns a transaction that is not the active spender");
                else if ((*r)->block_hash != s->second.second) fail(orphaned_records.count((*r)->block_hash) ? "spender-stale-block" : "spender-stale-block-unexplained", "txospenderindex returns the spender in block " + (*r)->block_hash.ToString().substr(0, 12) + " but the active spender is in block " + s->second.second.ToString().substr(0, 12));
                else out.spenders++;
            } else if (at_tip) {
                out.neg_spender++;
                if (r->has_value()) fail(orphaned_records.count((*r)->block_hash) ? "spender-stale" : "spender-stale-unexplained", "txospenderindex reports a spender (block " + (*r)->block_hash.ToString().substr(0, 12) + ") for an outpoint that is unspent in the active chain");
            }
        }
        // ---- from-scratch computation by the node itself at the tip (flushes: done last, the node is discarded afterwards)
        if (at_tip) {
            n.Flush();
            std::optional<kernel::CCoinsStats> fs;
            {
                LOCK(cs_main);
                fs = kernel::ComputeUTXOStats(kernel::CoinStatsHashType::MUHASH, n.cs().CoinsDB(), n.chainman().m_blockman);
            }
            auto st = csi->LookUpStats(*tip);
            out.evals++;
            if (!fs || !st || fs->hashSerialized != st->hashSerialized || fs->nTransactionOutputs != st->nTransactionOutputs || fs->total_amount != st->total_amount || fs->nBogoSize != st->nBogoSize)
                fail("coinstats-vs-computeutxostats", "coinstatsindex at the tip differs from ComputeUTXOStats over the coins database");
        }
    }
};

// One replay in a worker: returns result line(s)
static std::string run_job(const std::string& hist, Out& out)
{
    Sim s(out);
    for (size_t i = 0; i < hist.size(); i++) s.apply(hist[i]);
    std::string k = s.key();
    std::string en;
    for (const char* e = EVENTS; *e; e++) if (s.enabled(*e)) en.push_back(*e);
    s.check();
    return k + "\t" + en;
}

// ------------------------------------------------------------------------------------------------ worker pool
struct Worker { pid_t pid; int to, from; std::string buf; bool busy = false; size_t job = 0; bool dead = false; };

static void worker_main(int rfd, int wfd)
{
    FILE* in = fdopen(rfd, "r");
    FILE* outf = fdopen(wfd, "w");
    // private temp root: the fixture's temp-path generator was seeded before the fork, so siblings would collide
    const std::string mytmp = vx::scratch_dir() + "/c21-" + std::to_string(getpid());
    mkdir(mytmp.c_str(), 0755);
    setenv("TMPDIR", mytmp.c_str(), 1);
    char line[4096];
    while (fgets(line, sizeof line, in)) {
        std::string h(line);
        while (!h.empty() && (h.back() == '\n' || h.back() == '\r')) h.pop_back();
        if (h == "Q") break;
        if (h == "-") h.clear();
        Out o;
        std::string r;
        clock_t c0 = clock();
        try { r = run_job(h, o); } catch (const std::exception& e) { o.lines.push_back("V\tharness-exception\t" + esc(std::string("exception during replay: ") + e.what() + " history [" + h + "]") + "\thistory " + h); r = "EXC\t"; }
        for (auto& l : o.lines) fprintf(outf, "%s\n", l.c_str());
        fprintf(outf, "R\t%s\t%lu\t%lu\t%lu\t%lu\t%lu\t%lu\t%lu\t%lu\t%lu\t%d\n", r.c_str(), (unsigned long)o.evals, (unsigned long)o.tx_found, (unsigned long)o.spenders, (unsigned long)o.filters, (unsigned long)o.stats,
                (unsigned long)o.neg_spender, (unsigned long)o.stale_tx, (unsigned long)o.behind_seen, (unsigned long)o.ahead_seen, o.full_check ? 1 : 0);
        (void)c0;
        fflush(outf);
    }
    fflush(outf);
    { std::error_code ec; std::filesystem::remove_all(mytmp, ec); }
    _exit(0);
}

// ------------------------------------------------------------------------------------------------ MuHash enumeration
static uint64_t muhash_enum(bool big)
{
    uint64_t evals = 0;
    std::vector<Bytes> el;
    for (int i = 0; i < 6; i++) { Bytes b(i == 0 ? 0 : 1 + i * 7, (unsigned char)(0x10 * i + 1)); if (i == 5) b.assign(100, 0xff); el.push_back(b); }
    // every permutation of every subset of <= 6 elements gives one value (order independence)
    for (unsigned sub = 0; sub < 64; sub++) {
        std::vector<int> idx;
        for (int i = 0; i < 6; i++) if (sub >> i & 1) idx.push_back(i);
        if (!big && idx.size() == 6) { /* 720 permutations: kept in quick too, it is cheap */ }
        uint256 first;
        bool have = false;
        std::sort(idx.begin(), idx.end());
        do {
            MuHash3072 m;
            for (int i : idx) m.Insert(el[i]);
            uint256 o;
            m.Finalize(o);
            evals++;
            if (!have) { first = o; have = true; }
            else if (o != first) { printf("CXXVIOL\tmuhash-order\tMuHash3072 of the same set differs between insertion orders (subset %u)\tmuhash subset %u\n", sub, sub); break; }
        } while (std::next_permutation(idx.begin(), idx.end()));
        std::string d;
        for (int i : idx) d += "+" + vx::hex(el[i]) + ",";
        printf("MH\t%s\t%s\n", d.empty() ? "-" : d.c_str(), first.ToString().c_str());
    }
    // every insert/remove sequence of length <= 4 over 3 elements: value depends only on the net multiset; also via *= and /=
    const int ops = 6; // +0 +1 +2 -0 -1 -2
    std::map<std::string, uint256> by_net;
    for (int len = 0; len <= 4; len++) {
        int total = 1;
        for (int i = 0; i < len; i++) total *= ops;
        for (int code = 0; code < total; code++) {
            MuHash3072 m, viaops;
            int net[3] = {0, 0, 0};
            int c = code;
            for (int i = 0; i < len; i++) {
                int op = c % ops; c /= ops;
                if (op < 3) { m.Insert(el[op + 1]); net[op]++; MuHash3072 single(el[op + 1]); viaops *= single; }
                else { m.Remove(el[op - 2]); net[op - 3]--; MuHash3072 single(el[op - 2]); viaops /= single; }
            }
            uint256 o, o2;
            m.Finalize(o);
            viaops.Finalize(o2);
            evals += 2;
            std::string key;
            for (int e = 0; e < 3; e++) for (int r = 0; r < std::abs(net[e]); r++) key += (net[e] > 0 ? "+" : "-") + vx::hex(el[e + 1]) + ",";
            if (key.empty()) key = "-";
            auto it = by_net.find(key);
            if (it == by_net.end()) { by_net[key] = o; printf("MH\t%s\t%s\n", key.c_str(), o.ToString().c_str()); }
            else if (it->second != o) printf("CXXVIOL\tmuhash-interleaving\tMuHash3072 differs between two insert/remove interleavings with the same net multiset %s\tmuhash net %s\n", key.c_str(), key.c_str());
            if (o2 != o) printf("CXXVIOL\tmuhash-muldiv\tMuHash3072 built with *= and /= of singletons differs from Insert/Remove (net %s)\tmuhash net %s\n", key.c_str(), key.c_str());
            // serialisation round trip keeps the value
            DataStream ss;
            ss << m;
            MuHash3072 back;
            ss >> back;
            uint256 o3;
            back.Finalize(o3);
            evals++;
            if (o3 != o) printf("CXXVIOL\tmuhash-serialise\tMuHash3072 changes value through serialisation (net %s)\tmuhash net %s\n", key.c_str(), key.c_str());
        }
    }
    return evals;
}

int main(int argc, char** argv)
{
    vx::init(argc, argv, "C21", "model_checking");
    const bool big = vx::thorough();
    vx::scratch_dir();
    signal(SIGPIPE, SIG_IGN);
    const int max_depth = big ? 5 : 3;
    unsigned W = std::min<unsigned>(vx::ncpu(), big ? 8 : 6);
    if (!vx::ctx().replay.empty()) {
        // replay: run the recorded history in-process and print what the oracle says
        std::ifstream f(vx::ctx().replay);
        std::string l, h;
        while (std::getline(f, l)) if (l.rfind("history ", 0) == 0) h = l.substr(8);
        const std::string mytmp = vx::scratch_dir() + "/c21-" + std::to_string(getpid());
        mkdir(mytmp.c_str(), 0755);
        setenv("TMPDIR", mytmp.c_str(), 1);
        Out o;
        std::string r = run_job(h, o);
        { std::error_code ec; std::filesystem::remove_all(mytmp, ec); }
        printf("replay history [%s]\nkey %s\n", h.c_str(), r.c_str());
        for (auto& x : o.lines) if (x[0] == 'V') printf("%s\n", x.c_str());
        return 0;
    }
    setvbuf(stdout, nullptr, _IOFBF, 1 << 20);
    printf("BEGIN\t%s\n", vx::ctx().tier.c_str());
    // fork the workers before anything else exists in this process
    std::vector<Worker> ws(W);
    for (auto& w : ws) { w.pid = -1; w.to = w.from = -1; }
    // (re)start the worker in slot w; the parent never holds a node, so forking at any time is safe
    auto spawn = [&](Worker& w) -> bool {
        int a[2], b[2];
        if (pipe(a) || pipe(b)) return false;
        fflush(stdout);
        pid_t p = fork();
        if (p < 0) return false;
        if (p == 0) {
            close(a[1]); close(b[0]);
            for (auto& o : ws) { if (&o == &w) continue; if (o.to >= 0) close(o.to); if (o.from >= 0) close(o.from); }
            worker_main(a[0], b[1]);
        }
        close(a[0]); close(b[1]);
        w.pid = p; w.to = a[1]; w.from = b[0]; w.buf.clear(); w.busy = false; w.dead = false;
        return true;
    };
    for (auto& w : ws) if (!spawn(w)) { printf("HARNESS-ERROR cannot start workers\n"); return 2; }
    int respawns = 0;
    uint64_t states = 0, transitions = 0, evals = 0, agg[9] = {0}, full_checks = 0, nviol = 0;
    std::set<std::string> seen, viol_keys;
    std::map<std::string, std::string> ulines;
    struct Node { std::string hist, enabled; };
    std::vector<Node> frontier;
    bool exhaustive = true;
    int completed = 0;
    // generic "run these histories" with dynamic dispatch
    auto run_level = [&](const std::vector<std::string>& jobs, std::vector<std::pair<std::string, std::string>>& results) -> bool {
        results.assign(jobs.size(), {});
        size_t next = 0, done = 0;
        while (done < jobs.size()) {
            bool any_alive = false;
            for (auto& w : ws) {
                if (w.dead) continue;
                any_alive = true;
                if (!w.busy && next < jobs.size()) {
                    std::string l = (jobs[next].empty() ? std::string("-") : jobs[next]) + "\n";
                    if (write(w.to, l.data(), l.size()) != (ssize_t)l.size()) { w.dead = true; continue; }
                    w.busy = true; w.job = next++;
                }
            }
            if (!any_alive) return false;
            std::vector<pollfd> pf;
            std::vector<Worker*> pw;
            for (auto& w : ws) if (!w.dead && w.busy) { pf.push_back({w.from, POLLIN, 0}); pw.push_back(&w); }
            if (pf.empty()) continue;
            poll(pf.data(), pf.size(), 1000);
            for (size_t i = 0; i < pf.size(); i++) {
                if (!(pf[i].revents & (POLLIN | POLLHUP))) continue;
                Worker& w = *pw[i];
                char tmp[65536];
                ssize_t r = read(w.from, tmp, sizeof tmp);
                if (r <= 0) {
                    // the worker died while replaying: report the history (an abort inside the node is a finding, not silence)
                    w.dead = true;
                    { int st; waitpid(w.pid, &st, 0); close(w.to); close(w.from); w.to = w.from = -1; }
                    { std::error_code ec; std::filesystem::remove_all(vx::scratch_dir() + "/c21-" + std::to_string(w.pid), ec); }
                    if (++respawns <= 200) spawn(w); // a mutated / broken node may abort on many histories: keep the pool alive
                    std::string k = "process-died";
                    if (viol_keys.insert(k).second) { nviol++; printf("CXXVIOL\t%s\tworker process died (assert/abort/crash inside the node or an index) while replaying history [%s]\thistory %s\n", k.c_str(), jobs[w.job].c_str(), jobs[w.job].c_str()); }
                    results[w.job] = {"DIED", ""};
                    done++;
                    continue;
                }
                w.buf.append(tmp, r);
                size_t pos;
                while ((pos = w.buf.find('\n')) != std::string::npos) {
                    std::string l = w.buf.substr(0, pos);
                    w.buf.erase(0, pos + 1);
                    if (l[0] == 'V') {
                        std::string k = l.substr(2, l.find('\t', 2) - 2);
                        if (viol_keys.insert(k).second) { nviol++; printf("CXXVIOL%s\n", l.substr(1).c_str()); }
                    } else if (l[0] == 'U') {
                        size_t t = l.find('\t', 2);
                        std::string hsh = l.substr(2, t - 2);
                        auto it = ulines.find(hsh);
                        if (it == ulines.end()) ulines[hsh] = l;
                        else if (it->second != l && viol_keys.insert("harness-us-mismatch").second) { nviol++; printf("CXXVIOL\tcoinstats-muhash-unstable\ttwo replays report different MuHash / UTXO sets for the same block %s\tblock %s\n", hsh.c_str(), hsh.c_str()); }
                    } else if (l[0] == 'R') {
                        std::vector<std::string> f;
                        size_t s = 0;
                        while (true) { size_t t = l.find('\t', s); f.push_back(l.substr(s, t == std::string::npos ? t : t - s)); if (t == std::string::npos) break; s = t + 1; }
                        results[w.job] = {f[1], f[2]};
                        evals += strtoull(f[3].c_str(), nullptr, 10);
                        for (int a = 0; a < 8; a++) agg[a] += strtoull(f[4 + a].c_str(), nullptr, 10);
                        full_checks += f[12] == "1";
                        w.busy = false;
                        done++;
                    }
                }
            }
        }
        return true;
    };
    bool ok = true;
    {
        // root state + canon-on-replay determinism
        std::vector<std::pair<std::string, std::string>> res;
        ok = run_level({"", "a1tbfs", "a1tbfs"}, res);
        if (ok && res[1].first != res[2].first) { printf("HARNESS-ERROR replay is not deterministic:\n %s\n %s\n", res[1].first.c_str(), res[2].first.c_str()); ok = false; }
        const bool root_failed = ok && (res[0].first == "DIED" || res[0].first == "EXC"); // already reported as a violation
        if (ok && !root_failed) { seen.insert(res[0].first); states = 1; frontier.push_back({"", res[0].second}); }
    }
    for (int depth = 1; ok && depth <= max_depth && nviol <= 20; depth++) {
        std::vector<std::string> jobs;
        for (auto& nd : frontier) for (char e : nd.enabled) jobs.push_back(nd.hist + e);
        // deadline: whole levels only (a level is the unit that keeps the bound well defined)
        if (vx::deadline_reached()) { exhaustive = false; break; }
        std::vector<std::pair<std::string, std::string>> res;
        if (!run_level(jobs, res)) { ok = false; break; }
        std::vector<Node> next;
        for (size_t i = 0; i < jobs.size(); i++) {
            transitions++;
            if (res[i].first == "DIED" || res[i].first == "EXC") continue;
            if (seen.insert(res[i].first).second) { states++; next.push_back({jobs[i], res[i].second}); }
        }
        frontier.swap(next);
        completed = depth;
        fprintf(stderr, "[C21] depth %d: states=%lu transitions=%lu frontier=%zu t=%.1fs\n", depth, (unsigned long)states, (unsigned long)transitions, frontier.size(), vx::elapsed());
    }
    // Directed families (both tiers; in the thorough tier most of these states are already known): restart scenarios that
    // need more events than the quick depth bound, followed by every continuation of bounded length.
    //   aft1t : index synced + committed on branch A, index objects destroyed, reorg to branch B while they are gone, re-created
    //   af1tt : committed on A, reorg while running (rewound in memory, not committed), restart
    //   aitt  : appended A, A disconnected without a rewind, restart
    uint64_t directed = 0;
    {
        struct Fam { const char* prefix; int extra; };
        const Fam fams[] = {{"aft1t", 2}, {"af1tt", 1}, {"aitt", 1}};
        for (const Fam& f : fams) {
            if (!ok || nviol > 20 || vx::deadline_reached()) break;
            std::vector<std::pair<std::string, std::string>> res;
            if (!run_level({f.prefix}, res)) { ok = false; break; }
            transitions++; directed++;
            std::vector<Node> fr;
            if (res[0].first != "DIED" && res[0].first != "EXC") { if (seen.insert(res[0].first).second) states++; fr.push_back({f.prefix, res[0].second}); }
            for (int d = 1; ok && d <= f.extra && !fr.empty(); d++) {
                std::vector<std::string> jobs;
                for (auto& nd : fr) for (char e : nd.enabled) jobs.push_back(nd.hist + e);
                if (!run_level(jobs, res)) { ok = false; break; }
                std::vector<Node> next;
                for (size_t i = 0; i < jobs.size(); i++) {
                    transitions++; directed++;
                    if (res[i].first == "DIED" || res[i].first == "EXC") continue;
                    if (seen.insert(res[i].first).second) { states++; next.push_back({jobs[i], res[i].second}); }
                }
                fr.swap(next);
            }
        }
        fprintf(stderr, "[C21] directed families: %lu replays, states=%lu t=%.1fs\n", (unsigned long)directed, (unsigned long)states, vx::elapsed());
    }
    for (auto& w : ws) if (!w.dead) { if (write(w.to, "Q\n", 2) < 0) {} close(w.to); }
    for (auto& w : ws) if (!w.dead) { int st; waitpid(w.pid, &st, 0); close(w.from); }
    if (!ok) { printf("HARNESS-ERROR worker pool failed\n"); fflush(stdout); return 2; }
    for (auto& [h, l] : ulines) printf("US%s\n", l.substr(1).c_str());
    uint64_t mh_evals = muhash_enum(big);
    printf("STATS\tstates=%lu\ttransitions=%lu\tdepth=%d\tfixpoint=%d\texhaustive=%d\tevals=%lu\ttx_found=%lu\tspenders=%lu\tfilters=%lu\tstats=%lu\tneg_spender=%lu\tstale_tx=%lu\tbehind=%lu\tahead=%lu\tfull_checks=%lu\tevents=%zu\tworkers=%u\tdirected=%lu\n",
           (unsigned long)states, (unsigned long)transitions, completed, frontier.empty() ? 1 : 0, exhaustive ? 1 : 0, (unsigned long)(evals + mh_evals), (unsigned long)agg[0], (unsigned long)agg[1], (unsigned long)agg[2], (unsigned long)agg[3],
           (unsigned long)agg[4], (unsigned long)agg[5], (unsigned long)agg[6], (unsigned long)agg[7], (unsigned long)full_checks, strlen(EVENTS), W, (unsigned long)directed);
    printf("END\n");
    fflush(stdout);
    return 0;
}
