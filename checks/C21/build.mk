LINK := full
KITS := chainkit
