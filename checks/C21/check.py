#!/usr/bin/env python3
"""C21 checker: runs the C++ model checker (history replay of a node with four indexes; all index oracles are
checked there against recomputation from the reference ledger) and adds the independent Python MuHash3072
(vendored test_framework/crypto/muhash.py): for the enumerated small multisets and for the UTXO set of every
non-base block that the coinstatsindex reported a hash for."""
import sys
sys.path.insert(0, '/verif')
from vx.vxpy import Run

run = Run('C21', 'model_checking', thorough_deadline_s=1400)
if run.replay:
    import subprocess
    sys.exit(subprocess.call([run.harness, '--tier', run.tier, '--replay', run.replay]))
from test_framework.crypto.muhash import MuHash3072, data_to_num3072
import hashlib

_num_cache = {}


def num_of(data):
    v = _num_cache.get(data)
    if v is None:
        v = _num_cache[data] = data_to_num3072(hashlib.sha256(data).digest())
    return v


def muhash_of(inserts, removes=()):
    m = MuHash3072()
    for d in inserts:
        m.numerator = (m.numerator * num_of(d)) % m.MODULUS
    for d in removes:
        m.denominator = (m.denominator * num_of(d)) % m.MODULUS
    return m.digest()[::-1].hex()


# self-test of the reference against the published vector
if muhash_of([b'\x00' * 32, b'\x01' + b'\x00' * 31], [b'\x02' + b'\x00' * 31]) != '10d312b100cbd32ada024a6646e40d3482fcff103668d2625f10002a607d5863':
    print('HARNESS-ERROR python MuHash reference fails its test vector')
    sys.exit(2)

stats = None
begin = end = False
n_mh = n_us = 0
p = run.spawn()
for raw in p.stdout:
    line = raw.rstrip('\n')
    f = line.split('\t')
    tag = f[0]
    if tag == 'BEGIN':
        begin = True
    elif tag == 'END':
        end = True
    elif tag == 'CXXVIOL':
        run.violation(f[1], f[2], f[3].replace('\\n', '\n'))
    elif tag == 'STATS':
        stats = dict(kv.split('=') for kv in f[1:])
    elif tag == 'MH':
        ins, rem = [], []
        if f[1] != '-':
            for tok in f[1].split(','):
                if not tok:
                    continue
                (ins if tok[0] == '+' else rem).append(bytes.fromhex(tok[1:]))
        want = muhash_of(ins, rem)
        run.evaluations += 1
        n_mh += 1
        if f[2] != want:
            run.violation('muhash-reference', f'MuHash3072 of multiset {f[1]} is {f[2]}, Python reference {want}', line[:2000])
        run.distinct.add(('mh', f[1]))
    elif tag == 'US':
        coins = [bytes.fromhex(x) for x in f[3].split(',') if x]
        want = muhash_of(coins)
        run.evaluations += 1
        n_us += 1
        if f[2] != want:
            run.violation('coinstats-muhash-python', f'coinstatsindex MuHash for block {f[1]} is {f[2]}, Python MuHash of the reference UTXO set ({len(coins)} coins) is {want}', 'block ' + f[1])
        run.distinct.add(('us', f[1]))
    elif line.startswith('HARNESS-ERROR'):
        print(line)
        sys.exit(2)
    else:
        print('HARNESS-ERROR unknown producer line: ' + line[:120])
        sys.exit(2)
rc = p.wait()
if rc != 0 or not begin or not end or stats is None:
    print(f'HARNESS-ERROR producer failed (rc={rc}, begin={begin}, end={end}, stats={stats is not None})')
    sys.exit(2)
run.states = int(stats['states'])
run.transitions = int(stats['transitions'])
run.traces_validated = int(stats['transitions'])
run.evaluations += int(stats['evals'])
gates = {k: int(stats[k]) for k in ('tx_found', 'spenders', 'filters', 'stats', 'neg_spender', 'stale_tx', 'behind', 'ahead', 'full_checks')}
gates['muhash_multisets'] = n_mh
gates['utxo_sets_python'] = n_us
missing = [k for k, v in gates.items() if v == 0]
if missing and not run.violations:
    print('HARNESS-ERROR outcome classes never occurred: ' + ', '.join(missing))
    sys.exit(2)
run.extra['max_depth'] = int(stats['depth'])
run.extra['fixpoint'] = stats['fixpoint'] == '1'
run.extra['events'] = int(stats['events'])
run.extra['directed_family_replays'] = int(stats.get('directed', 0))
run.extra['outcome_classes'] = gates
run.sample(f"depth {stats['depth']} over {stats['events']} events (connect a/b/empty, reorg 1-3, invalidate tip, flush, indexes down/up, sync, interrupted sync + restart): states={stats['states']} transitions={stats['transitions']}, states with all four indexes synced and fully checked={stats['full_checks']}; directed restart families (prefixes aft1t / af1tt / aitt + continuations): {stats.get('directed', 0)} replays")
run.sample(f"lookups compared: txindex {stats['tx_found']} active txs (+{stats['stale_tx']} stale answers), spender index {stats['spenders']} active spenders (+{stats['neg_spender']} unspent outpoints), {stats['filters']} filters+headers, {stats['stats']} coinstats entries x 12 fields")
run.sample(f'MuHash: {n_mh} multisets (all permutations / interleavings in C++) and {n_us} block UTXO sets vs Python muhash.py')
run.assumptions.append('index Sync() is driven synchronously from the harness thread; the background sync thread and the asynchronous validation queue are not explored (see C14/C17 for concurrency)')
run.assumptions.append('"interrupt in the middle of a sync after n blocks" is modelled as a sync that completed on a shorter chain followed by an index restart, plus an interrupted Sync() that makes no progress')
sys.exit(run.finish(
    rule='BFS by history replay over events {connect block kind a/b/empty, reorg depth 1..3, invalidate tip, flush chainstate, destroy/recreate index objects on their databases, Sync(), interrupted Sync()+restart} from a 102-block base chain, '
         'merging states by canonical key (tip, block tree + validity, last flushed block, per-index synced flag / best block / committed locator, set of indexed blocks); in every state where all indexes report synced: '
         'every active transaction (txindex), every spent / unspent outpoint of the universe (txospenderindex), BIP158 filter + header chain of every active block, and 12 coinstats fields + MuHash at every active height are compared with recomputation from the reference ledger; '
         'MuHash3072: all permutations of <=6 elements, all insert/remove interleavings of length <=4 over 3 elements. distinct = multisets / UTXO sets checked against Python',
    exhaustive=stats['exhaustive'] == '1'))
