// C45 — Descriptors, addresses and key derivation round-trip and match the standards.
// Producer for check.py (Python references: vendored extendedkey.py / address.py / segwit_addr.py / descriptors.py).
// Parts:  (1) grammar-bounded descriptors: reparse fixpoints of public / private / normalized strings and equal
//             scripts at positions {0,1,2^31-1};  (2) descriptor checksum: every single-character substitution and
//             adjacent transposition must be rejected;  (3) BIP32: all paths of depth <= d over 5 indices from 3 seeds,
//             public derivation == neutered private derivation, strings go to the Python reference;  (4) addresses,
//             WIF and extended keys per network: round trip, and decoding under another network's parameters fails
//             unless that network uses the same prefix;  (5) bech32/bech32m: every 1..4 character substitution
//             (bounds below) fails the checksum the string was encoded with.
// stdout protocol (tab separated): P desc pos script.. | B seed path xprv xpub | Z net kind payload addr | K net kind hex str
//                                  | V key what replay | C key value | E message
#include <vx/vx.h>

#include <addresstype.h>
#include <base58.h>
#include <bech32.h>
#include <chainparams.h>
#include <key.h>
#include <key_io.h>
#include <pubkey.h>
#include <script/descriptor.h>
#include <script/signingprovider.h>
#include <util/chaintype.h>
#include <util/strencodings.h>

namespace {

std::mutex g_out_mu;
std::atomic<uint64_t> g_violations{0};
void emit(const std::string& line) { std::lock_guard<std::mutex> l(g_out_mu); fputs(line.c_str(), stdout); fputc('\n', stdout); }
std::string clean(std::string s) { for (auto& c : s) if (c == '\t' || c == '\n') c = ' '; return s; }
void viol(const std::string& key, const std::string& what, const std::string& replay)
{
    if (g_violations.fetch_add(1) < 60) emit("V\t" + clean(key) + "\t" + clean(what) + "\t" + clean(replay));
}

// ------------------------------------------------------------------------------------------------ descriptors
const std::string XPRV = "xprv9s21ZrQH143K3QTDL4LXw2F7HEK3wJUD2nW2nRk4stbPy6cq3jPPqjiChkVvvNKmPGJxWUtg6LnF5kejMRNNU3TGtRBeJgk33yuGBxrMPHi";
const std::string XPUB = "xpub661MyMwAqRbcFtXgS5sYJABqqG9YLmC4Q1Rdap9gSE8NqtwybGhePY2gZ29ESFjqJoCu1Rupje8YtGqsefD265TMg7usUDFdp6W1EGMcet8";
// BIP32 test vector 2, m
const std::string XPRV2 = "xprv9s21ZrQH143K31xYSDQpPDxsXRTUcvj2iNHm5NUtrGiGG5e2DtALGdso3pGz6ssrdK4PFmM8NSpSBHNqPqm55Qn3LqFtT2emdEXVYsCzC2U";
const std::string XPUB2 = "xpub661MyMwAqRbcFW31YEwpkMuc5THy2PSt5bDMsktWQcFF8syAmRUapSCGu8ED9W6oDMSgv6Zz8idoc4a6mr8BDzTJY47LJhkJ8UB7WEGuduB";

struct KeyExpr { std::string s; bool priv, xkey, uncompressed, ranged, multipath; };

struct DescCase { std::string s; bool must_reject; bool simple; /* single x-key pk/pkh/wpkh: scripts also go to the Python reference */ };

std::vector<KeyExpr> g_keys_full, g_keys_small, g_keys_tiny;
std::vector<DescCase> g_desc;

void build_keys()
{
    auto mk = [](unsigned char b, bool compressed) { CKey k; std::vector<unsigned char> v(32, b); v[31] = 1; k.Set(v.begin(), v.end(), compressed); return k; };
    CKey a = mk(0x11, true), b = mk(0x22, false), c = mk(0x33, true), d = mk(0x44, true);
    const std::vector<std::string> origins = {"", "[d34db33f/0h]", "[00112233/44'/0/1h]"};
    auto add = [&](std::vector<KeyExpr>& v, const std::string& s, bool priv, bool xkey, bool unc, bool ranged, bool mp) { v.push_back({s, priv, xkey, unc, ranged, mp}); };
    for (auto& o : origins) {
        add(g_keys_full, o + HexStr(a.GetPubKey()), false, false, false, false, false);
        add(g_keys_full, o + EncodeSecret(a), true, false, false, false, false);
        add(g_keys_full, o + HexStr(b.GetPubKey()), false, false, true, false, false);
        add(g_keys_full, o + EncodeSecret(b), true, false, true, false, false);
        for (const std::string& path : {"", "/0", "/1h", "/0'/1", "/*", "/*h", "/<0;1>/*", "/2147483647/*", "/<2h;3>/0/*'", "/5'/*'"}) {
            const bool ranged = path.find('*') != std::string::npos, mp = path.find('<') != std::string::npos;
            add(g_keys_full, o + XPUB + path, false, true, false, ranged, mp);
            add(g_keys_full, o + XPRV + path, true, true, false, ranged, mp);
        }
    }
    // reduced alphabets for templates with several keys (all keys distinct after derivation)
    add(g_keys_small, HexStr(a.GetPubKey()), false, false, false, false, false);
    add(g_keys_small, EncodeSecret(c), true, false, false, false, false);
    add(g_keys_small, "[d34db33f/0h]" + HexStr(d.GetPubKey()), false, false, false, false, false);
    add(g_keys_small, XPUB + "/*", false, true, false, true, false);
    add(g_keys_small, XPRV2 + "/*h", true, true, false, true, false);
    add(g_keys_small, XPUB2 + "/<0;1>/*", false, true, false, true, true);
    add(g_keys_small, "[00112233/44'/0]" + XPRV + "/1h/<5;6>", true, true, false, false, true);
    add(g_keys_small, XPRV + "/7'/8", true, true, false, false, false);
    add(g_keys_small, XPUB2 + "/9", false, true, false, false, false);
    add(g_keys_small, HexStr(b.GetPubKey()), false, false, true, false, false);
    for (size_t i : {0, 1, 3, 4, 5, 8}) g_keys_tiny.push_back(g_keys_small[i]);
}

void build_descriptors()
{
    build_keys();
    const CKey inner = [] { CKey k; std::vector<unsigned char> v(32, 0x55); k.Set(v.begin(), v.end(), true); return k; }();
    const std::string K0 = HexStr(inner.GetPubKey());
    // single-key wrappers; %K is replaced
    struct W { std::string t; bool segwit; bool simple; };
    const std::vector<W> w1 = {{"pk(%K)", false, true}, {"pkh(%K)", false, true}, {"wpkh(%K)", true, true}, {"sh(wpkh(%K))", true, false}, {"combo(%K)", false, false}, {"wsh(pk(%K))", true, false},
                               {"sh(wsh(pk(%K)))", true, false}, {"sh(pk(%K))", false, false}, {"sh(pkh(%K))", false, false}, {"wsh(pkh(%K))", true, false}, {"tr(%K)", true, false},
                               {"rawtr(%K)", true, false}, {"sh(wsh(pkh(%K)))", true, false}, {"tr(" + K0 + ",pk(%K))", true, false}, {"wsh(and_v(v:pk(%K),older(10)))", true, false},
                               {"tr(%K,{pk(" + K0 + "),and_v(v:pk(" + K0 + "),after(100))})", true, false}};
    auto subst = [](std::string t, const std::vector<std::string>& ks) {
        for (size_t i = 0; i < ks.size(); i++) {
            const std::string tag = i == 0 ? "%K" : (i == 1 ? "%L" : "%M");
            for (size_t p; (p = t.find(tag)) != std::string::npos;) t.replace(p, 2, ks[i]);
        }
        return t;
    };
    for (auto& w : w1)
        for (auto& k : g_keys_full) {
            // combo() with an uncompressed key is legal (it then only yields the legacy scripts)
            const bool must_reject = k.uncompressed && w.segwit;
            g_desc.push_back({subst(w.t, {k.s}), must_reject, w.simple && k.xkey && !k.uncompressed});
        }
    const std::vector<W> w2 = {{"multi(1,%K,%L)", false, false}, {"sh(multi(2,%K,%L))", false, false}, {"wsh(multi(1,%K,%L))", true, false}, {"sh(wsh(sortedmulti(2,%K,%L)))", true, false},
                               {"sh(sortedmulti(1,%K,%L))", false, false}, {"wsh(and_v(v:pk(%K),pk(%L)))", true, false}, {"wsh(or_d(pk(%K),pkh(%L)))", true, false}, {"tr(%K,pk(%L))", true, false},
                               {"tr(%K,multi_a(1,%L," + K0 + "))", true, false}, {"wsh(or_d(pk(%K),and_v(v:pkh(%L),after(500000001))))", true, false}, {"wsh(andor(pk(%K),older(65535),pk(%L)))", true, false}};
    for (auto& w : w2)
        for (auto& k : g_keys_small)
            for (auto& l : g_keys_small) {
                if (&k == &l) continue;
                g_desc.push_back({subst(w.t, {k.s, l.s}), (k.uncompressed || l.uncompressed) && w.segwit, false});
            }
    const std::vector<W> w3 = {{"wsh(sortedmulti(2,%K,%L,%M))", true, false}, {"wsh(thresh(2,pk(%K),s:pk(%L),s:pk(%M)))", true, false}, {"tr(%K,{pk(%L),pk(%M)})", true, false},
                               {"tr(%K,sortedmulti_a(2,%L,%M))", true, false}, {"sh(multi(2,%K,%L,%M))", false, false}, {"tr(%K,{pk(%L),{pk(%M),pk(" + K0 + ")}})", true, false}};
    for (auto& w : w3)
        for (auto& k : g_keys_tiny)
            for (auto& l : g_keys_tiny)
                for (auto& m : g_keys_tiny) {
                    if (&k == &l || &k == &m || &l == &m) continue;
                    g_desc.push_back({subst(w.t, {k.s, l.s, m.s}), false, false});
                }
    // key-less descriptors
    for (const std::string& s : std::vector<std::string>{"addr(bc1qw508d6qejxtdg4y5r3zarvary0c5xw7kv8f3t4)", "addr(1BvBMSEYstWetqTFn5Au4m4GFg7xJaNVN2)", "addr(3J98t1WpEZ73CNmQviecrnyiWrnqRhWNLy)",
                                 "addr(bc1p5cyxnuxmeuwuvkwfem96lqzszd02n6xdcjrs20cac6yqjjwudpxqkedrcr)", "addr(bc1pfeessrawgf)", "raw(6a0548656c6c6f)", "raw(51)", "raw()",
                                 "addr(bcrt1qw508d6qejxtdg4y5r3zarvary0c5xw7kygt080)", "raw(zz)", "addr()", "pk()", "sh(sh(pk(" + K0 + ")))", "wsh(wsh(pk(" + K0 + ")))", "wpkh(wpkh(" + K0 + "))",
                                 "tr(" + K0 + ",tr(" + K0 + "))", "sh(combo(" + K0 + "))", "multi(0," + K0 + ")", "multi(2," + K0 + ")", "pk(" + K0 + "/0)", "pk(" + XPUB + "/2147483648)",
                                 "pk(" + XPUB + "/*/0)", "pk(" + XPUB + "/<0;1>/<2;3>)", "pk(" + XPUB + "/<0>/*)", "pk(" + XPUB + "/<0;0>/*)", "pk([d34db33/0h]" + XPUB + ")", "pk([d34db33f/0h" + XPUB + ")",
                                 "wsh(and_v(v:pk(" + K0 + "),pk(" + K0 + ")))", "wsh(older(10))", "wsh(pk(" + K0 + ")", "pk(" + K0 + "))", "PK(" + K0 + ")", " pk(" + K0 + ")", "pk( " + K0 + ")"})
        g_desc.push_back({s, false, false});
}

bool expand_all(const Descriptor& d, const SigningProvider& prov, int pos, std::string& out)
{
    std::vector<CScript> scripts;
    FlatSigningProvider o;
    if (!d.Expand(pos, prov, scripts, o)) return false;
    out.clear();
    for (auto& s : scripts) out += (out.empty() ? "" : ",") + (s.empty() ? std::string("-") : HexStr(s));
    return true;
}

struct DescStats { std::atomic<uint64_t> accepted{0}, rejected{0}, descriptors{0}, with_priv{0}, normalized{0}, expansions{0}, expand_failed_hardened{0}, must_reject_seen{0}, multipath{0}; };

// returns the canonical public strings of the accepted descriptors (for the checksum part)
void check_descriptor(const DescCase& dc, DescStats& st, std::vector<std::string>* pubs_out)
{
    static const int POS[3] = {0, 1, 0x7fffffff};
    FlatSigningProvider keys;
    std::string err;
    auto parsed = Parse(dc.s, keys, err, /*require_checksum=*/false);
    if (parsed.empty()) {
        st.rejected++;
        if (dc.must_reject) st.must_reject_seen++;
        else emit("X\t" + dc.s + "\t" + clean(err)); // informational: rejected string and the parser's reason (not compared)
        return;
    }
    if (dc.must_reject) viol("desc-accepts-uncompressed-in-segwit " + dc.s, "descriptor with an uncompressed key in a segwit context is accepted", dc.s);
    st.accepted++;
    if (parsed.size() > 1) st.multipath++;
    for (size_t di = 0; di < parsed.size(); di++) {
        const Descriptor& d = *parsed[di];
        st.descriptors++;
        const std::string tag = dc.s + " [" + std::to_string(di) + "]";
        // --- public string: fixpoint, checksum
        const std::string pub = d.ToString();
        if (pubs_out) { std::lock_guard<std::mutex> l(g_out_mu); pubs_out->push_back(pub); }
        const size_t hash = pub.rfind('#');
        if (hash == std::string::npos || pub.size() - hash != 9) { viol("desc-pub-nochecksum " + tag, "ToString() without 8 character checksum: " + pub, dc.s); continue; }
        if (GetDescriptorChecksum(pub.substr(0, hash)) != pub.substr(hash + 1) || GetDescriptorChecksum(pub) != pub.substr(hash + 1))
            viol("desc-checksum-inconsistent " + tag, "GetDescriptorChecksum disagrees with the checksum printed by ToString(): " + pub, dc.s);
        FlatSigningProvider keys_pub;
        auto rp = Parse(pub, keys_pub, err, /*require_checksum=*/true);
        if (rp.size() != 1) { viol("desc-pub-reparse " + tag, "public string does not parse back to one descriptor: " + pub + " (" + err + ")", dc.s); continue; }
        if (rp[0]->ToString() != pub) { viol("desc-pub-fixpoint " + tag, "public string is not a fixpoint: " + pub + " -> " + rp[0]->ToString(), dc.s); continue; }
        if (!keys_pub.keys.empty()) viol("desc-pub-leaks-private " + tag, "public string yields private keys when parsed: " + pub, dc.s);
        // --- private string
        std::string prv;
        const bool has_prv = d.ToPrivateString(keys, prv);
        if (has_prv != !keys.keys.empty()) {
            // ToPrivateString() is documented to return true iff at least one private key is available
            viol("desc-prv-availability " + tag, std::string("ToPrivateString returned ") + (has_prv ? "true" : "false") + " with " + std::to_string(keys.keys.size()) + " private keys parsed", dc.s);
        }
        std::vector<std::unique_ptr<Descriptor>> rq;
        FlatSigningProvider keys_prv;
        if (has_prv) {
            st.with_priv++;
            rq = Parse(prv, keys_prv, err, true);
            if (rq.size() != 1) { viol("desc-prv-reparse " + tag, "private string does not parse back to one descriptor: " + prv + " (" + err + ")", dc.s); continue; }
            if (rq[0]->ToString() != pub) viol("desc-prv-pub-mismatch " + tag, "private string parses to a descriptor with another public string: " + rq[0]->ToString() + " vs " + pub, dc.s);
            std::string prv2;
            if (!rq[0]->ToPrivateString(keys_prv, prv2) || prv2 != prv) viol("desc-prv-fixpoint " + tag, "private string is not a fixpoint: " + prv + " -> " + prv2, dc.s);
            std::string prv3;
            if (!rp[0]->ToPrivateString(keys, prv3) || prv3 != prv) viol("desc-prv-from-pub " + tag, "reparsed public descriptor + original keys gives another private string: " + prv3 + " vs " + prv, dc.s);
        }
        // --- normalized string
        std::string norm;
        std::vector<std::unique_ptr<Descriptor>> rn;
        FlatSigningProvider keys_norm;
        const bool has_norm = d.ToNormalizedString(keys, norm);
        if (has_norm) {
            st.normalized++;
            rn = Parse(norm, keys_norm, err, true);
            if (rn.size() != 1) { viol("desc-norm-reparse " + tag, "normalized string does not parse back: " + norm + " (" + err + ")", dc.s); continue; }
            std::string norm2;
            if (rn[0]->ToString() != norm) viol("desc-norm-tostring " + tag, "normalized string is not canonical: " + norm + " -> " + rn[0]->ToString(), dc.s);
            if (!rn[0]->ToNormalizedString(keys, norm2) || norm2 != norm) viol("desc-norm-fixpoint " + tag, "normalizing a normalized descriptor changes it: " + norm + " -> " + norm2, dc.s);
        }
        // --- scripts at every probed position
        for (int pos : POS) {
            std::string a, b, c, n;
            const bool oka = expand_all(d, keys, pos, a);
            st.expansions++;
            const bool okb = expand_all(*rp[0], keys, pos, b);
            if (oka != okb || a != b) viol("desc-expand-pub " + tag + " pos " + std::to_string(pos), "scripts differ between original and reparsed public string: [" + a + "] vs [" + b + "]", dc.s);
            if (has_prv) {
                const bool okc = expand_all(*rq[0], keys_prv, pos, c);
                // the private string carries the keys hardened steps need; it may lack keys the original string had none for either
                if (okc != oka || a != c) viol("desc-expand-prv " + tag + " pos " + std::to_string(pos), "scripts differ between original and reparsed private string (own keys): [" + a + "] vs [" + c + "]", dc.s);
            }
            if (has_norm) {
                const bool okn = expand_all(*rn[0], keys, pos, n);
                if (okn != oka || a != n) viol("desc-expand-norm " + tag + " pos " + std::to_string(pos), "scripts differ between original and normalized string: [" + a + "] vs [" + n + "]", dc.s);
            }
            if (!oka) {
                st.expand_failed_hardened++;
                // expansion may only fail when a hardened step lacks its private key
                const bool hardened = dc.s.find('h') != std::string::npos || dc.s.find('\'') != std::string::npos;
                if (!hardened) viol("desc-expand-fails " + tag, "Expand fails although no hardened derivation is involved", dc.s);
            } else if (dc.simple) {
                emit("P\t" + dc.s + "\t" + std::to_string(di) + "\t" + std::to_string(pos) + "\t" + a);
            }
        }
    }
}

// ------------------------------------------------------------------------------------------------ descriptor checksum
uint64_t checksum_errors(const std::string& desc)
{
    static const std::string CHARSET = "0123456789()[],'/*abcdefgh@:$%{}IJKLMNOPQRSTUVWXYZ&+-.;<=>?!^_|~ijklmnopqrstuvwxyzABCDEFGH`#\"\\ ";
    uint64_t n = 0;
    FlatSigningProvider keys;
    std::string err;
    if (Parse(desc, keys, err, true).empty()) { viol("checksum-base " + desc, "base descriptor does not parse: " + err, desc); return 0; }
    for (size_t i = 0; i < desc.size(); i++) {
        for (char c : CHARSET) {
            if (c == desc[i]) continue;
            std::string m = desc;
            m[i] = c;
            FlatSigningProvider k2;
            n++;
            if (!Parse(m, k2, err, true).empty()) viol("checksum-substitution " + desc, "single substitution at " + std::to_string(i) + " to '" + std::string(1, c) + "' is accepted: " + m, m);
        }
        if (i + 1 < desc.size() && desc[i] != desc[i + 1]) {
            std::string m = desc;
            std::swap(m[i], m[i + 1]);
            FlatSigningProvider k2;
            n++;
            if (!Parse(m, k2, err, true).empty()) viol("checksum-transposition " + desc, "adjacent transposition at " + std::to_string(i) + " is accepted: " + m, m);
        }
    }
    return n;
}

// ------------------------------------------------------------------------------------------------ BIP32
uint64_t bip32_part(int depth)
{
    const std::vector<std::string> seeds = {"000102030405060708090a0b0c0d0e0f",
                                            "fffcf9f6f3f0edeae7e4e1dedbd8d5d2cfccc9c6c3c0bdbab7b4b1aeaba8a5a29f9c999693908d8a8784817e7b7875726f6c696663605d5a5754514e4b484542",
                                            "4b381541583be4423346c643850da4b320e46a87ae3d2a4e6da11eba819cd4acba45d239319ac14f863b8d5ab5a0d0c64d2e8a1e7d1457df2e5a3c51c73235be"};
    const uint32_t IDX[5] = {0, 1, 0x7fffffffu, 0x80000000u, 0xffffffffu};
    uint64_t n = 0;
    for (auto& seedhex : seeds) {
        auto seed = ParseHex(seedhex);
        CExtKey master;
        master.SetSeed(MakeByteSpan(seed));
        std::function<void(const CExtKey&, const std::string&, int)> rec = [&](const CExtKey& k, const std::string& path, int d) {
            CExtPubKey pub = k.Neuter();
            emit("B\t" + seedhex + "\t" + (path.empty() ? std::string("m") : path) + "\t" + EncodeExtKey(k) + "\t" + EncodeExtPubKey(pub));
            n++;
            // string round trips
            CExtKey k2 = DecodeExtKey(EncodeExtKey(k));
            CExtPubKey p2 = DecodeExtPubKey(EncodeExtPubKey(pub));
            if (!(k2 == k) || !(p2 == pub)) viol("bip32-string-roundtrip " + seedhex + " " + path, "extended key does not survive Encode/Decode", path);
            if (d == 0) return;
            for (uint32_t i : IDX) {
                CExtKey child;
                const bool ok = k.Derive(child, i);
                const std::string p = path + (path.empty() ? "" : "/") + std::to_string(i);
                if (!ok) { viol("bip32-derive-fails " + seedhex + " " + p, "private derivation fails", p); continue; }
                if (!(i >> 31)) { // public derivation is defined for non-hardened indices only (CPubKey::Derive asserts it)
                    CExtPubKey pchild;
                    if (!pub.Derive(pchild, i) || !(pchild == child.Neuter()))
                        viol("bip32-public-private-mismatch " + seedhex + " " + p, "CExtPubKey::Derive differs from the neutered CExtKey::Derive", p);
                    // in-place derivation (output object == parent), as BIP32PubkeyProvider::GetPubKey and the MuSig2 signer call it
                    CExtPubKey inplace = pub;
                    if (!inplace.Derive(inplace, i) || !(inplace == child.Neuter()) || EncodeExtPubKey(inplace) != EncodeExtPubKey(child.Neuter()))
                        viol("bip32-public-inplace-mismatch " + seedhex + " " + p, "CExtPubKey::Derive into the parent object differs from the neutered CExtKey::Derive (depth/fingerprint/child number/key)", p);
                }
                {
                    CExtKey inplace = k;
                    if (!inplace.Derive(inplace, i) || !(inplace == child) || EncodeExtKey(inplace) != EncodeExtKey(child))
                        viol("bip32-private-inplace-mismatch " + seedhex + " " + p, "CExtKey::Derive into the parent object differs from derivation into a fresh object", p);
                }
                rec(child, p, d - 1);
            }
        };
        rec(master, "", depth);
        // the parent xpub a ranged descriptor caches (and the wallet persists) is the standard xpub of the path's last fixed step
        for (const std::string& path : std::vector<std::string>{"/*", "/0/*", "/1/2/*", "/2147483647/0/1/*"}) {
            const CExtPubKey root = master.Neuter();
            FlatSigningProvider keys;
            std::string err;
            auto parsed = Parse("wpkh(" + EncodeExtPubKey(root) + path + ")", keys, err, false);
            if (parsed.size() != 1) { viol("bip32-desc-cache-parse " + seedhex + " " + path, "ranged xpub descriptor does not parse: " + err, path); continue; }
            CExtPubKey want = root;
            size_t pos = 1;
            while (path[pos] != '*') {
                size_t e = path.find('/', pos);
                CExtPubKey next;
                if (!want.Derive(next, (uint32_t)std::stoul(path.substr(pos, e - pos)))) break;
                want = next;
                pos = e + 1;
            }
            DescriptorCache cache;
            std::vector<CScript> scripts;
            FlatSigningProvider out;
            if (!parsed[0]->Expand(3, keys, scripts, out, &cache)) { viol("bip32-desc-cache-expand " + seedhex + " " + path, "Expand fails", path); continue; }
            auto parents = cache.GetCachedParentExtPubKeys();
            if (parents.size() != 1 || !(parents.begin()->second == want) || EncodeExtPubKey(parents.begin()->second) != EncodeExtPubKey(want))
                viol("bip32-desc-cached-parent-xpub " + seedhex + " " + path, "the parent xpub cached by Expand differs from the standard derivation along the descriptor's path", path);
            // expanding again from the cache alone gives the same script
            std::vector<CScript> scripts2;
            FlatSigningProvider out2;
            if (!parsed[0]->ExpandFromCache(3, cache, scripts2, out2) || scripts2 != scripts)
                viol("bip32-desc-cache-expand-differs " + seedhex + " " + path, "ExpandFromCache differs from Expand", path);
        }
    }
    return n;
}

// ------------------------------------------------------------------------------------------------ addresses per network
struct Net { ChainType type; const char* name; int pkh, sh, wif; const char* hrp; const char* xpub; const char* xprv; };
// reference table: prefixes as published (BIP13/BIP32/BIP173, chainparams documentation), not read from the code under test
const Net NETS[5] = {{ChainType::MAIN, "main", 0, 5, 128, "bc", "0488b21e", "0488ade4"},
                     {ChainType::TESTNET, "test", 111, 196, 239, "tb", "043587cf", "04358394"},
                     {ChainType::TESTNET4, "testnet4", 111, 196, 239, "tb", "043587cf", "04358394"},
                     {ChainType::SIGNET, "signet", 111, 196, 239, "tb", "043587cf", "04358394"},
                     {ChainType::REGTEST, "regtest", 111, 196, 239, "bcrt", "043587cf", "04358394"}};

uint64_t address_part(std::vector<std::string>& bech_samples)
{
    uint64_t n = 0;
    struct D { std::string kind; CTxDestination dest; std::string payload; int cls; /* 0 base58 pkh, 1 base58 sh, 2 bech32 */ };
    std::vector<D> dests;
    const std::vector<std::vector<unsigned char>> h20 = {std::vector<unsigned char>(20, 0x00), std::vector<unsigned char>(20, 0xff), ParseHex("751e76e8199196d454941c45d1b3a323f1433bd6"), ParseHex("0102030405060708090a0b0c0d0e0f1011121314")};
    const std::vector<std::vector<unsigned char>> h32 = {std::vector<unsigned char>(32, 0x00), std::vector<unsigned char>(32, 0xff), ParseHex("1863143c14c5166804bd19203356da136c985678cd4d27a1b8c6329604903262")};
    for (auto& h : h20) {
        uint160 u; std::copy(h.begin(), h.end(), u.begin());
        dests.push_back({"pkh", PKHash(u), HexStr(h), 0});
        dests.push_back({"sh", ScriptHash(u), HexStr(h), 1});
        dests.push_back({"wpkh", WitnessV0KeyHash(u), HexStr(h), 2});
    }
    for (auto& h : h32) {
        uint256 u; std::copy(h.begin(), h.end(), u.begin());
        dests.push_back({"wsh", WitnessV0ScriptHash(u), HexStr(h), 2});
        WitnessV1Taproot tr; std::copy(h.begin(), h.end(), tr.begin());
        dests.push_back({"tr", tr, HexStr(h), 2});
    }
    dests.push_back({"anchor", PayToAnchor(), "4e73", 2});
    for (int ver : {1, 2, 15, 16})
        for (size_t len : {2, 3, 20, 31, 33, 40}) {
            if (ver == 1 && len == 2) continue; // would need the exact anchor program to be PayToAnchor; other 2-byte v1 programs are fine but keep the set small
            std::vector<unsigned char> prog(len);
            for (size_t i = 0; i < len; i++) prog[i] = (unsigned char)(ver * 16 + i);
            dests.push_back({"wit" + std::to_string(ver), WitnessUnknown(ver, prog), HexStr(prog), 2});
        }
    CKey wk; { std::vector<unsigned char> v(32, 0x77); wk.Set(v.begin(), v.end(), true); }
    CKey wku; { std::vector<unsigned char> v(32, 0x78); wku.Set(v.begin(), v.end(), false); }
    CExtKey xk; { auto seed = ParseHex("000102030405060708090a0b0c0d0e0f"); xk.SetSeed(MakeByteSpan(seed)); }
    CExtKey xchild; if (!xk.Derive(xchild, 0x80000001u)) emit("E\tderive");
    // encode under every network
    std::vector<std::vector<std::string>> enc(5, std::vector<std::string>(dests.size()));
    std::vector<std::array<std::string, 4>> keyenc(5);
    for (int ni = 0; ni < 5; ni++) {
        SelectParams(NETS[ni].type);
        for (size_t di = 0; di < dests.size(); di++) {
            enc[ni][di] = EncodeDestination(dests[di].dest);
            emit(std::string("Z\t") + NETS[ni].name + "\t" + dests[di].kind + "\t" + dests[di].payload + "\t" + enc[ni][di]);
            if (ni == 0 || ni == 4) if (dests[di].cls == 2 && bech_samples.size() < 64) bech_samples.push_back(enc[ni][di]);
        }
        keyenc[ni] = {EncodeSecret(wk), EncodeSecret(wku), EncodeExtKey(xchild), EncodeExtPubKey(xchild.Neuter())};
        emit(std::string("K\t") + NETS[ni].name + "\twif\t" + HexStr(wk) + "01\t" + keyenc[ni][0]);
        emit(std::string("K\t") + NETS[ni].name + "\twif\t" + HexStr(wku) + "\t" + keyenc[ni][1]);
        std::vector<unsigned char> ser(74);
        xchild.Encode(ser.data());
        emit(std::string("K\t") + NETS[ni].name + "\txprv\t" + HexStr(ser) + "\t" + keyenc[ni][2]);
        xchild.Neuter().Encode(ser.data());
        emit(std::string("K\t") + NETS[ni].name + "\txpub\t" + HexStr(ser) + "\t" + keyenc[ni][3]);
    }
    // decode everything under every network
    for (int nj = 0; nj < 5; nj++) {
        SelectParams(NETS[nj].type);
        for (int ni = 0; ni < 5; ni++) {
            for (size_t di = 0; di < dests.size(); di++) {
                n++;
                const CTxDestination got = DecodeDestination(enc[ni][di]);
                const bool valid = IsValidDestination(got);
                const bool same_prefix = dests[di].cls == 0 ? NETS[ni].pkh == NETS[nj].pkh : (dests[di].cls == 1 ? NETS[ni].sh == NETS[nj].sh : std::string(NETS[ni].hrp) == NETS[nj].hrp);
                const std::string id = std::string(NETS[ni].name) + "->" + NETS[nj].name + " " + dests[di].kind + " " + dests[di].payload;
                if (same_prefix) {
                    if (!valid || !(got == dests[di].dest)) viol("addr-roundtrip " + id, "address " + enc[ni][di] + " does not decode to the destination it encodes", enc[ni][di]);
                    if (IsValidDestinationString(enc[ni][di]) != true) viol("addr-validstring " + id, "IsValidDestinationString false for " + enc[ni][di], enc[ni][di]);
                } else if (valid) {
                    viol("addr-cross-network " + id, "address " + enc[ni][di] + " of " + NETS[ni].name + " decodes under " + NETS[nj].name, enc[ni][di]);
                }
            }
            // keys
            n += 4;
            const bool same_wif = NETS[ni].wif == NETS[nj].wif, same_x = std::string(NETS[ni].xpub) == NETS[nj].xpub;
            const std::string id = std::string(NETS[ni].name) + "->" + NETS[nj].name;
            CKey d0 = DecodeSecret(keyenc[ni][0]), d1 = DecodeSecret(keyenc[ni][1]);
            if (same_wif ? !(d0.IsValid() && d0 == wk && d0.IsCompressed() && d1.IsValid() && d1 == wku && !d1.IsCompressed()) : (d0.IsValid() || d1.IsValid()))
                viol("wif-network " + id, "WIF key round trip / network separation violated", keyenc[ni][0]);
            CExtKey dx = DecodeExtKey(keyenc[ni][2]);
            CExtPubKey dp = DecodeExtPubKey(keyenc[ni][3]);
            if (same_x ? !(dx.key.IsValid() && dx == xchild && dp.pubkey.IsValid() && dp == xchild.Neuter()) : (dx.key.IsValid() || dp.pubkey.IsValid()))
                viol("extkey-network " + id, "extended key round trip / network separation violated", keyenc[ni][2]);
        }
    }
    SelectParams(ChainType::MAIN);
    return n;
}

// ------------------------------------------------------------------------------------------------ bech32 substitutions
const char* B32 = "qpzry9x8gf2tvdw0s3jn54khce6mua7l";

// all substitutions of exactly k characters among positions `pos` of s; alphabet per position = the 31 other data
// characters (or for hrp positions: the other lower case letters/digits given)
uint64_t subst_k(const std::string& s, const std::vector<size_t>& pos, int k, bech32::Encoding enc, const std::string& what)
{
    std::atomic<uint64_t> total{0};
    if ((int)pos.size() < k) return 0;
    // one work unit per first (lowest) substituted position
    vx::par_for(pos.size() - k + 1, 1, [&](uint64_t lo, uint64_t hi, unsigned) {
        for (uint64_t first = lo; first < hi; first++) {
            std::string m = s;
            uint64_t n = 0;
            std::function<void(size_t, int)> rec = [&](size_t start, int left) {
                if (left == 0) {
                    n++;
                    if (bech32::Decode(m).encoding == enc) viol("bech32-undetected " + what + " " + s, std::to_string(k) + " substituted characters pass the checksum: " + m, m);
                    return;
                }
                for (size_t pi = start; pi + left <= pos.size(); pi++) {
                    const size_t p = pos[pi];
                    const char orig = m[p];
                    for (int c = 0; c < 32; c++) {
                        if (B32[c] == orig) continue;
                        m[p] = B32[c];
                        rec(pi + 1, left - 1);
                    }
                    m[p] = orig;
                }
            };
            const size_t p0 = pos[first];
            const char orig0 = m[p0];
            for (int c = 0; c < 32; c++) {
                if (B32[c] == orig0) continue;
                m[p0] = B32[c];
                rec(first + 1, k - 1);
            }
            total += n;
        }
    });
    return total;
}

} // namespace

int main(int argc, char** argv)
{
    vx::init(argc, argv, "C45", "exploration");
    const bool big = vx::thorough();
    ECC_Context ecc;
    SelectParams(ChainType::MAIN);

    if (!vx::ctx().replay.empty()) {
        // replay file: a descriptor string on the first non-comment line
        std::ifstream f(vx::ctx().replay);
        std::string line;
        while (std::getline(f, line)) if (!line.empty() && line[0] != '#') break;
        DescStats st;
        check_descriptor({line, false, false}, st, nullptr);
        printf("replayed descriptor case: accepted=%llu violations=%llu\n", (unsigned long long)st.accepted.load(), (unsigned long long)g_violations.load());
        return 0;
    }

    // (1) descriptors
    build_descriptors();
    DescStats st;
    std::vector<std::string> pubs;
    vx::par_for(g_desc.size(), 8, [&](uint64_t lo, uint64_t hi, unsigned) {
        for (uint64_t i = lo; i < hi; i++) check_descriptor(g_desc[i], st, &pubs);
    });
    std::sort(pubs.begin(), pubs.end());
    pubs.erase(std::unique(pubs.begin(), pubs.end()), pubs.end());
    for (auto& q : pubs) emit("Q\t" + q); // canonical strings: checksum verified by the Python reference
    emit("C\tdesc_strings\t" + std::to_string(g_desc.size()));
    emit("C\tdesc_accepted\t" + std::to_string(st.accepted.load()));
    emit("C\tdesc_rejected\t" + std::to_string(st.rejected.load()));
    emit("C\tdesc_rejected_uncompressed_segwit\t" + std::to_string(st.must_reject_seen.load()));
    emit("C\tdesc_descriptors\t" + std::to_string(st.descriptors.load()));
    emit("C\tdesc_multipath_strings\t" + std::to_string(st.multipath.load()));
    emit("C\tdesc_with_private_string\t" + std::to_string(st.with_priv.load()));
    emit("C\tdesc_with_normalized_string\t" + std::to_string(st.normalized.load()));
    emit("C\tdesc_expansions\t" + std::to_string(st.expansions.load()));
    emit("C\tdesc_expansions_failed_hardened_without_key\t" + std::to_string(st.expand_failed_hardened.load()));
    emit("C\tdesc_distinct_public_strings\t" + std::to_string(pubs.size()));

    // (2) checksum: 20 (quick: 8) descriptors spread over the distinct canonical strings
    {
        const size_t want = big ? 20 : 8;
        std::vector<std::string> sel;
        for (size_t i = 0; i < want && !pubs.empty(); i++) sel.push_back(pubs[(i * pubs.size()) / want]);
        std::atomic<uint64_t> n{0};
        vx::par_for(sel.size(), 1, [&](uint64_t lo, uint64_t hi, unsigned) { for (uint64_t i = lo; i < hi; i++) n += checksum_errors(sel[i]); });
        emit("C\tchecksum_descriptors\t" + std::to_string(sel.size()));
        emit("C\tchecksum_mutations\t" + std::to_string(n.load()));
    }

    // (3) BIP32
    emit("C\tbip32_nodes\t" + std::to_string(bip32_part(big ? 4 : 3)));

    // (4) addresses / keys per network
    std::vector<std::string> bech;
    emit("C\taddress_decodes\t" + std::to_string(address_part(bech)));

    // (5) bech32 / bech32m substitutions
    {
        // sample strings: addresses of several lengths (both encodings), a 90 character string, a minimal string
        std::vector<std::pair<std::string, bech32::Encoding>> samples;
        auto addsample = [&](const std::string& s) {
            auto d = bech32::Decode(s);
            if (d.encoding == bech32::Encoding::INVALID) { emit("E\tbech32 sample does not decode: " + s); return; }
            samples.emplace_back(s, d.encoding);
        };
        std::set<size_t> lens;
        for (auto& s : bech) if (lens.insert(s.size() * 2 + (s[0] == 'b' && s[2] == 'r')).second && samples.size() < 8) addsample(s);
        { // 90 characters: hrp "bc", 81 data values + 6 checksum
            std::vector<uint8_t> v(81); for (size_t i = 0; i < v.size(); i++) v[i] = (uint8_t)((i * 7 + 3) & 31);
            addsample(bech32::Encode(bech32::Encoding::BECH32, "bc", v));
            addsample(bech32::Encode(bech32::Encoding::BECH32M, "verylonghrp", std::vector<uint8_t>{1, 2, 3}));
        }
        uint64_t n1 = 0, n2 = 0, n3 = 0, n4 = 0;
        for (auto& [s, enc] : samples) {
            const size_t sep = s.rfind('1');
            std::vector<size_t> data_pos;
            for (size_t p = sep + 1; p < s.size(); p++) data_pos.push_back(p);
            n1 += subst_k(s, data_pos, 1, enc, "1-subst");
            if (vx::deadline_reached()) break;
            n2 += subst_k(s, data_pos, 2, enc, "2-subst");
            // substitutions inside the human readable part (1 and 2 characters), alphabet a..z 0..9
            for (size_t p = 0; p < sep; p++)
                for (char c : std::string("abcdefghijklmnopqrstuvwxyz023456789")) {
                    if (c == s[p]) continue;
                    std::string m = s; m[p] = c; n1++;
                    if (bech32::Decode(m).encoding == enc) viol("bech32-undetected hrp " + s, "substituted hrp character passes the checksum: " + m, m);
                }
        }
        // 3 substitutions: a 20 character string ("bc" + 1 + 11 data + 6 checksum)
        {
            std::vector<uint8_t> v(11); for (size_t i = 0; i < v.size(); i++) v[i] = (uint8_t)((i * 5 + 1) & 31);
            for (auto e : {bech32::Encoding::BECH32, bech32::Encoding::BECH32M}) {
                if (!big && e == bech32::Encoding::BECH32) continue;
                std::string s = bech32::Encode(e, "bc", v);
                std::vector<size_t> pos; for (size_t p = 3; p < s.size(); p++) pos.push_back(p);
                n3 += subst_k(s, pos, 3, e, "3-subst");
            }
        }
        // 4 substitutions: minimal data part (quick: 1 value + 6 checksum characters; thorough: 4 values + 6)
        {
            std::vector<uint8_t> v(big ? 4 : 1); for (size_t i = 0; i < v.size(); i++) v[i] = (uint8_t)((i * 11 + 2) & 31);
            for (auto e : {bech32::Encoding::BECH32, bech32::Encoding::BECH32M}) {
                std::string s = bech32::Encode(e, "bc", v);
                std::vector<size_t> pos; for (size_t p = 3; p < s.size(); p++) pos.push_back(p);
                if (vx::deadline_reached()) { emit("C\tdeadline\t1"); break; }
                n4 += subst_k(s, pos, 4, e, "4-subst");
            }
        }
        emit("C\tbech32_samples\t" + std::to_string(samples.size()));
        emit("C\tbech32_subst1\t" + std::to_string(n1));
        emit("C\tbech32_subst2\t" + std::to_string(n2));
        emit("C\tbech32_subst3\t" + std::to_string(n3));
        emit("C\tbech32_subst4\t" + std::to_string(n4));
    }
    emit("C\tcpp_violations\t" + std::to_string(g_violations.load()));
    emit("C\tdone\t1");
    fflush(stdout);
    return 0;
}
