#!/usr/bin/env python3
"""C45 consumer: Python references for the producer in main.cpp (see its header for the line protocol)."""
import sys, os, re, hashlib
sys.path.insert(0, '/verif')
from vx.vxpy import Run
run = Run('C45', 'exploration')
if run.replay:
    import subprocess
    sys.exit(subprocess.call([run.harness, '--tier', run.tier, '--replay', run.replay]))

from test_framework.extendedkey import ExtendedPrivateKey
from test_framework.address import byte_to_base58
from test_framework.segwit_addr import encode_segwit_address
from test_framework.descriptors import descsum_check, descsum_create
from test_framework.script import hash160

H = 0x80000000
# ---- BIP32 reference with a cache per (seed, path)
_cache = {}
def node(seedhex, path):
    key = (seedhex, path)
    if key in _cache: return _cache[key]
    if not path:
        n = ExtendedPrivateKey.from_seed(bytes.fromhex(seedhex))
    else:
        n = node(seedhex, path[:-1])._derive(path[-1])
    _cache[key] = n
    return n

SEED1 = '000102030405060708090a0b0c0d0e0f'
XPRV1 = 'xprv9s21ZrQH143K3QTDL4LXw2F7HEK3wJUD2nW2nRk4stbPy6cq3jPPqjiChkVvvNKmPGJxWUtg6LnF5kejMRNNU3TGtRBeJgk33yuGBxrMPHi'
XPUB1 = 'xpub661MyMwAqRbcFtXgS5sYJABqqG9YLmC4Q1Rdap9gSE8NqtwybGhePY2gZ29ESFjqJoCu1Rupje8YtGqsefD265TMg7usUDFdp6W1EGMcet8'

def simple_script(desc, di, pos):
    """Expected script of pk/pkh/wpkh over the vector-1 root key with a derivation path; None if not of that shape."""
    m = re.fullmatch(r'(pk|pkh|wpkh)\((\[[0-9a-f]{8}[^\]]*\])?(xprv\w+|xpub\w+)((?:/[^/)]+)*)\)', desc)
    if not m: return None
    kind, _, xk, path = m.groups()
    if xk not in (XPRV1, XPUB1): return None
    idx = []
    for comp in [c for c in path.split('/') if c]:
        hard = comp[-1] in "h'"
        body = comp[:-1] if hard else comp
        if body.startswith('<'):
            alts = body[1:-1].split(';')
            a = alts[di]
            h2 = a[-1] in "h'"
            v = int(a[:-1] if h2 else a)
            idx.append(v + (H if (h2 or hard) else 0))
        elif body == '*':
            idx.append(pos + (H if hard else 0))
        else:
            idx.append(int(body) + (H if hard else 0))
    pub = node(SEED1, tuple(idx)).key.get_pubkey().get_bytes()
    if kind == 'pk': return '21' + pub.hex() + 'ac'
    if kind == 'pkh': return '76a914' + hash160(pub).hex() + '88ac'
    return '0014' + hash160(pub).hex()

NET = {'main': (0, 5, 128, 'bc', '0488b21e', '0488ade4'), 'test': (111, 196, 239, 'tb', '043587cf', '04358394'), 'testnet4': (111, 196, 239, 'tb', '043587cf', '04358394'),
       'signet': (111, 196, 239, 'tb', '043587cf', '04358394'), 'regtest': (111, 196, 239, 'bcrt', '043587cf', '04358394')}
def ref_address(net, kind, payload):
    pkh, sh, _, hrp, _, _ = NET[net]
    b = bytes.fromhex(payload)
    if kind == 'pkh': return byte_to_base58(b, pkh)
    if kind == 'sh': return byte_to_base58(b, sh)
    if kind in ('wpkh', 'wsh'): return encode_segwit_address(hrp, 0, b)
    if kind in ('tr', 'anchor'): return encode_segwit_address(hrp, 1, b)
    return encode_segwit_address(hrp, int(kind[3:]), b)

p = run.spawn()
counts, done = {}, False
rejected_reasons = {}
nB = nP = nZ = nK = nQ = 0
for line in p.stdout:
    f = line.rstrip('\n').split('\t')
    t = f[0]
    if t == 'B':
        seed, path, xprv, xpub = f[1:5]
        idx = tuple(int(x) for x in path.split('/')) if path != 'm' else ()
        n = node(seed, idx)
        nB += 1
        if n.to_string(mainnet=True) != xprv or n.pubkey().to_string(mainnet=True) != xpub:
            run.violation(f'bip32-reference {seed[:8]} {path}', f'derivation m/{path}: got {xprv} / {xpub}, BIP32 reference gives {n.to_string(mainnet=True)} / {n.pubkey().to_string(mainnet=True)}', f'# seed {seed} path {path}')
        if len(idx) >= 2 and nB % 97 == 0: run.sample(f'bip32 m/{path} -> {xpub[:20]}...')
    elif t == 'P':
        desc, di, pos, scripts = f[1], int(f[2]), int(f[3]), f[4]
        want = simple_script(desc, di, pos)
        if want is None:
            print('HARNESS-ERROR cannot interpret simple descriptor', desc); sys.exit(2)
        nP += 1
        run.distinct.add(('P', desc, di, pos))
        if scripts != want:
            run.violation(f'desc-script-reference {desc} [{di}] pos {pos}', f'Expand gives {scripts}, BIP32 reference + script template gives {want}', desc)
        if nP % 211 == 0: run.sample(f'{desc[:12]}..{desc[-14:]} [{di}] pos {pos} -> {scripts}')
    elif t == 'Q':
        nQ += 1
        run.distinct.add(('Q', f[1]))
        if not descsum_check(f[1]):
            run.violation(f'desc-checksum-reference {f[1]}', 'checksum printed by ToString() is not the descriptor checksum of the reference implementation (expected ' + descsum_create(f[1][:-9])[-8:] + ')', f[1])
    elif t == 'Z':
        net, kind, payload, addr = f[1:5]
        nZ += 1
        want = ref_address(net, kind, payload)
        run.distinct.add(('Z', addr))
        if addr != want:
            run.violation(f'addr-reference {net} {kind} {payload}', f'EncodeDestination gives {addr}, reference gives {want}', addr)
        if nZ % 61 == 0: run.sample(f'{net} {kind} {payload[:16]} -> {addr}')
    elif t == 'K':
        net, kind, hexs, s = f[1:5]
        nK += 1
        _, _, wif, _, xpub, xprv = NET[net]
        b = bytes.fromhex(hexs)
        want = byte_to_base58(b, wif) if kind == 'wif' else byte_to_base58(b, bytes.fromhex(xprv if kind == 'xprv' else xpub))
        if s != want:
            run.violation(f'key-encoding-reference {net} {kind}', f'{kind} encodes to {s}, reference gives {want}', s)
    elif t == 'X':
        rejected_reasons[f[2]] = rejected_reasons.get(f[2], 0) + 1
    elif t == 'V':
        run.violation(f[1], f[2], f[3])
    elif t == 'C':
        if f[1] == 'done': done = True
        else: counts[f[1]] = int(f[2])
    elif t == 'E':
        print('HARNESS-ERROR', f[1:]); sys.exit(2)
rc = p.wait()
if rc != 0 or not done:
    print(f'HARNESS-ERROR property=C45 producer exited rc={rc} done={done}'); sys.exit(2)
if counts.get('bip32_nodes') != nB or counts.get('desc_distinct_public_strings') != nQ:
    print(f'HARNESS-ERROR property=C45 producer/consumer count mismatch bip32 {counts.get("bip32_nodes")}/{nB} pubs {counts.get("desc_distinct_public_strings")}/{nQ}'); sys.exit(2)
run.evaluations = (counts.get('desc_expansions', 0) + counts.get('checksum_mutations', 0) + nB + counts.get('address_decodes', 0) + nZ + nK +
                   sum(counts.get(f'bech32_subst{k}', 0) for k in (1, 2, 3, 4)))
run.extra.update(counts)
run.extra.update(rejected_reasons_informational=rejected_reasons)
run.extra.update(python_checked=dict(bip32_nodes=nB, simple_descriptor_scripts=nP, descriptor_checksums=nQ, addresses=nZ, key_encodings=nK))
if not run.violations:
    need = ['desc_accepted', 'desc_rejected', 'desc_rejected_uncompressed_segwit', 'desc_multipath_strings', 'desc_with_private_string', 'desc_with_normalized_string',
            'desc_expansions_failed_hardened_without_key', 'checksum_mutations', 'bech32_subst1', 'bech32_subst2', 'bech32_subst3', 'bech32_subst4']
    miss = [k for k in need if not counts.get(k)]
    if miss or nP < 100 or nZ < 100:
        print(f'HARNESS-ERROR property=C45 vacuous: zero counts {miss} nP={nP} nZ={nZ}'); sys.exit(2)
exhaustive = not counts.get('deadline')
run.assumptions += ['descriptor grammar, key alphabet and bounds as listed in the rule; musig(), hash-preimage miniscript fragments and unspendable() keys are not in the grammar',
                    'bech32 substitutions use the 31 other data characters per position (human readable part: the other lower-case alphanumerics, 1 character at a time); the separator is never substituted']
sys.exit(run.finish(rule='(1) descriptors: 16 one-key wrappers x 72 key expressions (hex/WIF compressed+uncompressed, xpub/xprv x 10 paths incl. hardened, ranged, multipath; x 3 origins) + 11 two-key templates x 90 ordered key pairs + 6 three-key templates x 120 ordered triples + 34 key-less/malformed strings; '
                         'every accepted descriptor: ToString/ToPrivateString/ToNormalizedString reparse fixpoints and equal Expand results at positions {0,1,2^31-1} (original vs public vs private vs normalized), pk/pkh/wpkh scripts vs BIP32 reference, all canonical checksums vs reference; '
                         '(2) checksum: every single substitution (95-symbol alphabet) and adjacent transposition of 8 (quick) / 20 (thorough) canonical descriptors; (3) BIP32: all paths of depth <= 3 (quick) / 4 (thorough) over {0,1,2^31-1,2^31,2^32-1} from the 3 BIP32 vector seeds vs extendedkey.py, public vs private derivation; '
                         '(4) 45 destinations + WIF/xprv/xpub x 5 networks: encodings vs reference, decode under all 5 parameter sets; (5) bech32(m): all 1- and 2-substitutions of 10 strings (14..90 chars), all 3-substitutions of a 20-char string, all 4-substitutions of a 10-char (quick) / 13-char (thorough) string; '
                         'distinct = distinct canonical descriptors, simple-descriptor expansions and addresses checked against a Python reference',
                    exhaustive=exhaustive))
