LINK := full
