// C39 part (b) — transaction-origin privacy in net_processing / node/transaction.cpp / txmempool.
// VX-STATE with fork-per-transition (vx/forksim.h) over the real PeerManager on a regtest node (kits/p2pkit.h).
// Events: tx i enters the mempool by local submission (BroadcastTransaction, broadcast to all) or from the network
// (peer Q sends it), SendMessages to peer A / B (flushes pending invs), getdata(tx i) from A / B, a block connecting
// the pool, BroadcastTransaction(NO_MEMPOOL_PRIVATE_BROADCAST), opening a private-broadcast connection, the private
// peer requesting the announced / another transaction (+ pong).
// Oracle (reference model = entry order of transactions, the position of the last tx-inv message observed on each
// peer's wire, the transactions of the most recent block, the set of privately submitted transactions):
//   * a normal peer receives `tx` T only in reply to its getdata and only if T entered the pool before the last inv
//     message sent to that peer, or T is in the most recent block (one-directional, as the property states);
//   * a privately submitted transaction is not in the mempool, is never announced or sent on a non-private
//     connection, is announced exactly once per private connection (one inv with one item), and sent there at most
//     once and only in reply to the getdata for exactly that transaction - until it comes back from the network or
//     is submitted normally.
#include <vx/vx.h>
#include <vx/forksim.h>

#include <kits/p2pkit.h>

#include <chainparams.h>
#include <node/transaction.h>
#include <node/types.h>
#include <streams.h>
#include <util/time.h>

#include <sys/resource.h>

using namespace ck;

namespace {

std::string u(int64_t v) { return std::to_string(v); }

struct PrivConn {
    pk::Peer* peer{nullptr};
    int inv_tx{-1};      // index of the transaction announced on it (-1: none yet)
    int n_inv{0};
    bool asked{false};   // the peer sent getdata for exactly the announced tx
    int n_tx{0};
};

struct Sim {
    Node& n;
    pk::Net& net;
    RefLedger& L;
    vx::ForkSim fs;
    CTransactionRef tx[2];
    pk::Peer *A{nullptr}, *B{nullptr}, *Q{nullptr};
    // ---- reference model
    int clock{0};                 // number of mempool entries so far
    int entered[2]{0, 0};         // entry position of tx i while it is in the pool (0: not in the pool)
    int cut[2]{0, 0};             // value of `clock` when the last tx-inv message was sent to A / B
    bool announced[2][2]{};       // [peer][tx]: an inv for it was observed on that peer's wire
    bool in_recent_block[2]{false, false};
    bool confirmed[2]{false, false};
    bool priv[2]{false, false};   // submitted for private broadcast, not yet returned / submitted normally (privacy claim active)
    bool queued[2]{false, false}; // handed to the private-broadcast queue and not yet received back (may be announced on private connections)
    std::vector<PrivConn> conns;
    int blocks{0};
    // pending getdata bookkeeping for the event being applied
    std::set<std::pair<int, int>> requested; // (peer index, tx)

    Sim(Node& node, pk::Net& nt, RefLedger& l) : n(node), net(nt), L(l) {}

    int tx_index(const uint256& h) const
    {
        for (int i = 0; i < 2; i++) if (tx[i]->GetHash().ToUint256() == h || tx[i]->GetWitnessHash().ToUint256() == h) return i;
        return -1;
    }
    bool in_pool(int i) { return n.pool().exists(tx[i]->GetHash()); }

    void sync_pool_entries()
    {
        for (int i = 0; i < 2; i++) {
            bool now = in_pool(i);
            if (now && !entered[i]) entered[i] = ++clock;
            if (!now) entered[i] = 0;
        }
    }

    // ---- wire monitors
    void check_normal_peer(int pi, pk::Peer& p, const char* pname)
    {
        for (auto& m : p.TakeSent()) {
            if (m.type == "inv") {
                bool has_tx = false;
                for (auto& inv : pk::ParseInvVector(m)) {
                    if (!inv.IsGenTxMsg()) continue;
                    has_tx = true;
                    int i = tx_index(inv.hash);
                    if (i >= 0 && priv[i]) fs.report(std::string("private-tx-announced-to-normal-peer-") + pname, std::string("transaction ") + u(i) + " submitted for private broadcast was announced (inv) on the non-private connection " + pname);
                    if (i >= 0 && pi < 2) announced[pi][i] = true;
                }
                if (has_tx && pi < 2) { cut[pi] = clock; fs.sh->outcome_classes[0]++; }
            } else if (m.type == "tx") {
                CTransactionRef got;
                try { DataStream ds{m.payload}; ds >> TX_WITH_WITNESS(got); } catch (const std::exception&) { fs.report("undecodable-tx-message", "tx message sent by the node cannot be decoded"); continue; }
                int i = tx_index(got->GetHash().ToUint256());
                if (i < 0) continue;
                if (priv[i]) fs.report(std::string("private-tx-sent-to-normal-peer-") + pname, std::string("transaction ") + u(i) + " submitted for private broadcast was sent on the non-private connection " + pname);
                if (pi >= 2) continue;
                if (!requested.count({pi, i})) { fs.report(std::string("unsolicited-tx-to-") + pname, "tx " + u(i) + " sent without a getdata from that peer in this step"); continue; }
                const bool before_last_inv = entered[i] != 0 && entered[i] <= cut[pi];
                if (before_last_inv) fs.sh->outcome_classes[1]++;
                else if (in_recent_block[i]) fs.sh->outcome_classes[2]++;
                else fs.report(std::string("tx-served-before-announcement-") + pname,
                               "peer " + std::string(pname) + " obtained transaction " + u(i) + " by getdata although it " + (entered[i] ? "entered the mempool (entry #" + u(entered[i]) + ") after the last tx inv sent to that peer (at entry count " + u(cut[pi]) + ")" : "is not in the mempool") + " and is not in the most recent block");
            } else if (m.type == "notfound") {
                for (auto& inv : pk::ParseInvVector(m)) if (tx_index(inv.hash) >= 0) fs.sh->outcome_classes[3]++;
            }
        }
    }
    void check_private_conn(PrivConn& c, size_t ci)
    {
        for (auto& m : c.peer->TakeSent()) {
            if (m.type == "inv") {
                auto v = pk::ParseInvVector(m);
                c.n_inv++;
                if (c.n_inv > 1) fs.report("private-conn-second-inv", "more than one inv on private-broadcast connection #" + u(ci));
                if (v.size() != 1 || !v[0].IsMsgTx()) { fs.report("private-conn-inv-shape", "inv on a private-broadcast connection must carry exactly one MSG_TX item (got " + u(v.size()) + ")"); continue; }
                int i = tx_index(v[0].hash);
                if (i < 0 || !queued[i]) fs.report("private-conn-inv-not-private", "private-broadcast connection announced a transaction that is not pending for private broadcast");
                c.inv_tx = i;
                fs.sh->outcome_classes[4]++;
            } else if (m.type == "tx") {
                CTransactionRef got;
                try { DataStream ds{m.payload}; ds >> TX_WITH_WITNESS(got); } catch (const std::exception&) { fs.report("undecodable-tx-message", "tx message cannot be decoded"); continue; }
                int i = tx_index(got->GetHash().ToUint256());
                c.n_tx++;
                if (i != c.inv_tx || c.inv_tx < 0) fs.report("private-conn-wrong-tx", "private-broadcast connection #" + u(ci) + " was sent transaction " + u(i) + " but announced " + u(c.inv_tx));
                else if (!c.asked) fs.report("private-conn-tx-without-matching-getdata", "transaction sent on private-broadcast connection #" + u(ci) + " without a getdata for exactly that transaction");
                else if (c.n_tx > 1) fs.report("private-conn-tx-twice", "transaction sent twice on private-broadcast connection #" + u(ci));
                else fs.sh->outcome_classes[5]++;
            }
        }
    }
    void monitors()
    {
        sync_pool_entries();
        check_normal_peer(0, *A, "A");
        check_normal_peer(1, *B, "B");
        check_normal_peer(2, *Q, "Q");
        for (size_t i = 0; i < conns.size(); i++) check_private_conn(conns[i], i);
        for (int i = 0; i < 2; i++)
            if (priv[i] && in_pool(i)) fs.report("private-tx-in-mempool", "transaction " + u(i) + " submitted for private broadcast is in the node's mempool");
        requested.clear();
    }

    // ---- events
    std::vector<std::string> events()
    {
        std::vector<std::string> e;
        for (int i = 0; i < 2; i++) {
            if (!in_pool(i) && !confirmed[i]) { e.push_back("M" + u(i)); e.push_back("R" + u(i)); }
            if (!in_pool(i) && !confirmed[i] && !priv[i]) e.push_back("V" + u(i));
        }
        e.push_back("SA"); e.push_back("SB");
        for (const char* p : {"A", "B"}) for (int i = 0; i < 2; i++) e.push_back(std::string("G") + p + u(i));
        if (blocks < 2) e.push_back("BLK");
        if (conns.size() < 2 && (priv[0] || priv[1])) e.push_back("O");
        if (!conns.empty() && !conns.back().peer->disconnect_flag() && conns.back().inv_tx >= 0 && conns.back().n_tx == 0) { e.push_back("PG"); e.push_back("PX"); }
        return e;
    }
    void apply(const std::string& ev)
    {
        const char k = ev[0];
        if (k == 'M' || k == 'V') {
            int i = ev[1] - '0';
            std::string err;
            auto r = node::BroadcastTransaction(n.m_node, tx[i], err, /*max_tx_fee=*/0,
                                                k == 'M' ? node::TxBroadcast::MEMPOOL_AND_BROADCAST_TO_ALL : node::TxBroadcast::NO_MEMPOOL_PRIVATE_BROADCAST, /*wait_callback=*/false);
            if (r != node::TransactionError::OK) fs.report(std::string("broadcast-failed-") + k, "BroadcastTransaction failed for a valid transaction: " + err);
            if (k == 'M') priv[i] = false; // submitted without private broadcast: no privacy claim any more
            else { priv[i] = true; queued[i] = true; fs.sh->outcome_classes[6]++; }
        } else if (k == 'R') {
            int i = ev[1] - '0';
            // "received back from the network": from now on the transaction is public
            const bool was_priv = priv[i];
            priv[i] = false;
            queued[i] = false;
            net.DeliverAndRun(*Q, pk::MsgTx(*tx[i]));
            if (was_priv) {
                fs.sh->outcome_classes[7]++;
                for (auto& info : net.peerman->GetPrivateBroadcastInfo())
                    if (info.tx->GetHash() == tx[i]->GetHash()) fs.report("private-queue-keeps-returned-tx", "transaction " + u(i) + " is still queued for private broadcast after it was received from the network");
            }
        } else if (k == 'S') {
            net.Send(ev[1] == 'A' ? *A : *B);
        } else if (k == 'G') {
            int pi = ev[1] == 'A' ? 0 : 1, i = ev[2] - '0';
            requested.insert({pi, i});
            net.DeliverAndRun(pi == 0 ? *A : *B, pk::MsgGetData({CInv(MSG_WTX, tx[i]->GetWitnessHash().ToUint256())}));
        } else if (k == 'B') {
            std::vector<CTransactionRef> txs;
            CAmount fees = 0;
            for (int i = 0; i < 2; i++) if (in_pool(i)) { txs.push_back(tx[i]); fees += 10000; }
            BlockOpts bo;
            bo.fees = fees;
            bo.extra_nonce = 100 + blocks;
            CBlock b = MakeBlock(n, n.tip(), txs, bo);
            BlockResult r = n.ProcessBlock(b);
            if (!r.valid) fs.report("harness-block-rejected", "block built by the harness was rejected: " + r.reason);
            blocks++;
            for (int i = 0; i < 2; i++) {
                in_recent_block[i] = false;
                for (auto& t : txs) if (t == tx[i]) { in_recent_block[i] = true; confirmed[i] = true; priv[i] = false; }
            }
        } else if (k == 'O') {
            pk::PeerSpec s;
            s.type = ConnectionType::PRIVATE_BROADCAST;
            s.ip = "20.0.0." + u(10 + (int)conns.size());
            s.wtxid_relay = false;
            s.send_cmpct = false;
            PrivConn c;
            c.peer = &net.AddPeer(s);
            conns.push_back(c);
        } else if (ev == "PG" || ev == "PX") {
            PrivConn& c = conns.back();
            int want = ev == "PG" ? c.inv_tx : 1 - c.inv_tx;
            if (ev == "PG") c.asked = true;
            net.DeliverAndRun(*c.peer, pk::MsgGetData({CInv(MSG_TX, tx[want]->GetHash().ToUint256())}));
            // answer the ping that follows the transaction (confirms reception)
            auto sent = c.peer->TakeSent();
            // (re-scan the captured messages through the monitor by putting them back is not possible: check here)
            for (auto& m : sent) {
                if (m.type == "tx") {
                    CTransactionRef got;
                    try { DataStream ds{m.payload}; ds >> TX_WITH_WITNESS(got); } catch (const std::exception&) { continue; }
                    int i = tx_index(got->GetHash().ToUint256());
                    c.n_tx++;
                    if (ev == "PX") fs.report("private-conn-serves-other-getdata", "private-broadcast connection answered a getdata for a transaction it had not announced (sent tx " + u(i) + ", announced " + u(c.inv_tx) + ")");
                    else if (i != c.inv_tx) fs.report("private-conn-wrong-tx", "private-broadcast connection sent transaction " + u(i) + " but announced " + u(c.inv_tx));
                    else if (c.n_tx > 1) fs.report("private-conn-tx-twice", "transaction sent twice on a private-broadcast connection");
                    else fs.sh->outcome_classes[5]++;
                } else if (m.type == "inv") {
                    fs.report("private-conn-second-inv", "another inv on a private-broadcast connection after a getdata");
                } else if (m.type == "ping" && m.payload.size() == 8 && ev == "PG") {
                    net.DeliverAndRun(*c.peer, pk::MsgRaw("pong", m.payload));
                }
            }
            if (ev == "PX") { if (c.peer->disconnect_flag()) fs.sh->outcome_classes[8]++; }
        }
        monitors();
    }
    uint64_t key()
    {
        std::string k;
        for (int i = 0; i < 2; i++) {
            k += u(in_pool(i)) + u(confirmed[i]) + u(in_recent_block[i]) + u(priv[i]) + u(queued[i]);
            for (int p = 0; p < 2; p++) k += u(entered[i] != 0 && entered[i] <= cut[p]) + u(announced[p][i]);
            k += ",";
        }
        k += u(entered[0] && entered[1] ? (entered[0] < entered[1]) : 2) + "b" + u(blocks);
        for (auto& c : conns) k += "|" + u(c.inv_tx) + u(c.n_inv) + u(c.asked) + u(c.n_tx) + u(c.peer->disconnect_flag());
        for (auto& info : net.peerman->GetPrivateBroadcastInfo()) {
            k += "/q" + u(tx_index(info.tx->GetHash().ToUint256())) + ":" + u(info.peers.size());
            for (auto& pr : info.peers) k += pr.received.has_value() ? "r" : "s";
        }
        k += std::string("d") + u(A->disconnect_flag()) + u(B->disconnect_flag()) + u(Q->disconnect_flag());
        return vx::fnv1a(k);
    }
};

} // namespace

// Called by main.cpp's run() (inside its guarded child process, single-threaded at that point).
void c39_part_b(bool big, unsigned workers)
{
    auto& E = vx::ev();
    vx::scratch_dir();
    NodeOpts nopts;
    nopts.min_validation_cache = true; // every transition fork()s this process: keep the image small
    Node n(nopts);
    RefLedger L;
    L.AddGenesis(Params().GenesisBlock());
    SetMockTime(Params().GenesisBlock().nTime + 600 * 105); // the tip must be recent: transactions are ignored during initial block download
    auto hashes = MineEmpty(n, L, 103);
    if (n.chainman().IsInitialBlockDownload()) { printf("HARNESS-ERROR property=C39 part b: node still in initial block download\n"); exit(2); }
    pk::Net net(n);
    // BroadcastTransaction() reaches the PeerManager through the NodeContext: alias it (released again below)
    n.m_node.peerman.reset(net.peerman.get());
    Sim sim(n, net, L);
    for (int i = 0; i < 2; i++) {
        const CBlock& b = L.blocks.at(hashes[i]).block;
        sim.tx[i] = SpendTx({COutPoint(b.vtx[0]->GetHash(), 0)}, {b.vtx[0]->vout[0].nValue - 10000});
    }
    auto spec = [](ConnectionType t, const char* ip, NetPermissionFlags perms) { pk::PeerSpec s; s.type = t; s.ip = ip; s.perms = perms; return s; };
    // NoBan peers get their tx inventory flushed by every SendMessages call (no Poisson timer): SendMessages is then a
    // deterministic "announce now" event and mock time never has to move.
    sim.A = &net.AddPeer(spec(ConnectionType::INBOUND, "11.1.1.1", NetPermissionFlags::NoBan));
    sim.B = &net.AddPeer(spec(ConnectionType::INBOUND, "12.2.2.2", NetPermissionFlags::NoBan));
    sim.Q = &net.AddPeer(spec(ConnectionType::OUTBOUND_FULL_RELAY, "13.3.3.3", NetPermissionFlags::None));
    sim.A->TakeSent(); sim.B->TakeSent(); sim.Q->TakeSent();
    if (sim.A->disconnect_flag() || sim.B->disconnect_flag() || sim.Q->disconnect_flag()) { printf("HARNESS-ERROR property=C39 part b: a peer was disconnected during setup\n"); n.m_node.peerman.release(); exit(2); }

    if (getenv("C39B_FORKTEST")) {
        struct rusage r0, r1; getrusage(RUSAGE_CHILDREN, &r0);
        double t0 = vx::elapsed();
        for (int i = 0; i < 20; i++) { pid_t p = fork(); if (p == 0) _exit(0); int st; waitpid(p, &st, 0); }
        double t1 = vx::elapsed();
        for (int i = 0; i < 20; i++) { pid_t p = fork(); if (p == 0) { sim.apply("M0"); sim.key(); _exit(0); } int st; waitpid(p, &st, 0); }
        double t2 = vx::elapsed();
        getrusage(RUSAGE_CHILDREN, &r1);
        FILE* sf = fopen("/proc/self/statm", "r"); long vm = 0, rss = 0; if (sf) { if (fscanf(sf, "%ld %ld", &vm, &rss) != 2) {} fclose(sf); }
        fprintf(stderr, "[forktest] empty fork %.1f ms, fork+M0 %.1f ms wall; children cpu %.2fs; vm %ld MB rss %ld MB\n", (t1 - t0) / 20 * 1e3, (t2 - t1) / 20 * 1e3,
                (r1.ru_utime.tv_sec - r0.ru_utime.tv_sec) + (r1.ru_utime.tv_usec - r0.ru_utime.tv_usec) / 1e6 + (r1.ru_stime.tv_sec - r0.ru_stime.tv_sec) + (r1.ru_stime.tv_usec - r0.ru_stime.tv_usec) / 1e6, vm * 4 / 1024, rss * 4 / 1024);
    }
    const uint64_t states0 = E.states.load(), trans0 = E.transitions.load();
    vx::ForkSim& fs = sim.fs;
    fs.events = [&] { return sim.events(); };
    fs.apply = [&](const std::string& e) { sim.apply(e); };
    fs.key = [&] { return sim.key(); };
    fs.max_depth = big ? 5 : 3; // ~0.1-0.3 s of CPU per transition (fork of the node process) on the shared machine
    fs.split_depth = 1;
    fs.workers = workers;
    fs.table_bits = 20;
    // share of the deadline for this part
    fs.budget_s = vx::elapsed() + (big ? 700 : 100);
    if (const char* e = getenv("C39B_DEPTH")) fs.max_depth = atoi(e);      // experimentation only
    if (const char* e = getenv("C39B_BUDGET")) fs.budget_s = vx::elapsed() + atof(e);
    fs.run();
    E.set("partb_states", E.states.load() - states0);
    E.set("partb_transitions", E.transitions.load() - trans0);
    E.set("partb_max_depth", (uint64_t)fs.max_depth);
    static const char* OC[] = {"tx inv sent to a normal peer", "getdata served: entered the pool before the last inv", "getdata served: in the most recent block", "getdata answered notfound",
                               "inv on a private-broadcast connection", "tx served on a private-broadcast connection after the matching getdata", "private submission accepted", "private tx received back from the network",
                               "private connection dropped after a getdata for another tx"};
    bool vac = false;
    for (int i = 0; i < 9; i++) {
        E.set(std::string("partb n: ") + OC[i], fs.sh->outcome_classes[i].load());
        if (fs.sh->outcome_classes[i].load() == 0) vac = true;
    }
    E.assume("part b: peers A and B have the NoBan permission so that every SendMessages call flushes their pending tx inventory (no Poisson timers); mock time does not move; two transactions, at most two private-broadcast connections and two blocks per history");
    E.assume("part b: 'the node last sent that peer transaction announcements' is taken as the last inv message with a tx item observed on that peer's wire; in this alphabet (no fee filter, no bloom filter, the requesting peers never send transactions) every inventory flush with pending items produces such a message");
    E.sample("part b history alphabet: M<i> local submit, R<i> received from peer Q, V<i> private submit, SA/SB SendMessages, G<peer><i> getdata, BLK, O open private connection, PG/PX private peer requests the announced / the other tx");
    n.m_node.peerman.release();
    if (vac && !fs.sh->deadline_hit.load() && vx::rep().violations == 0) { printf("HARNESS-ERROR property=C39 part b vacuous: an outcome class never occurred\n"); vx::write_evidence(); exit(2); }
}
