// C39 (part a) — Transaction-origin privacy: the PrivateBroadcast queue object.
// VX-STATE by history replay: BFS over all operation histories of a real PrivateBroadcast(max_transactions=2,
// max_send_attempts=2) with 3 transactions, 3 recipient nodes and a mock clock, compared after every call with a
// queue model written from the comments in private_broadcast.h.
// Part (b) of the property (net_processing: FindTxForGetData / m_last_inv_sequence, PushPrivateBroadcastTx,
// BroadcastTransaction) is explored by partb.cpp (c39_part_b(), called from run() below).
//
// The object reads NodeClock::now() (process-global mock time), therefore the search runs single-threaded.
#include <vx/vx.h>
#include <kits/histbfs.h>

#include <netaddress.h>
#include <primitives/transaction.h>
#include <private_broadcast.h>
#include <script/script.h>
#include <util/time.h>

#include <arpa/inet.h>
#include <map>
#include <optional>
#include <set>

using namespace std::chrono_literals;

// part (b): net_processing histories (checks/C39/partb.cpp, added by w-crypto); adds to the evidence counters
void c39_part_b(bool big, unsigned workers);

namespace {

int NTX = 3, NNODE = 3;
size_t MAX_TX = 2, MAX_ATTEMPTS = 2;
const int64_t T0 = 1'700'000'000;
CTransactionRef TX[4];
CService ADDR[4];

enum OpType { ADD, REMOVE, PICK, CONFIRM, CLK1, CLK5 };
struct Op { OpType t; int x = 0; };
std::vector<Op> OPS;

std::string op_str(const Op& o)
{
    char b[64];
    switch (o.t) {
    case ADD: snprintf(b, sizeof b, "Add(tx%d)", o.x); break;
    case REMOVE: snprintf(b, sizeof b, "Remove(tx%d)", o.x); break;
    case PICK: snprintf(b, sizeof b, "PickTxForSend(node%d)", o.x); break;
    case CONFIRM: snprintf(b, sizeof b, "NodeConfirmedReception(node%d)", o.x); break;
    case CLK1: snprintf(b, sizeof b, "clock += 1min"); break;
    case CLK5: snprintf(b, sizeof b, "clock += 5min"); break;
    }
    return b;
}
std::string describe(const std::string& hist)
{
    std::string s = "# PrivateBroadcast(max_transactions=" + std::to_string(MAX_TX) + ", max_send_attempts=" + std::to_string(MAX_ATTEMPTS) + "), " + std::to_string(NTX) + " txs, " + std::to_string(NNODE) + " nodes\n";
    for (unsigned char c : hist) s += std::to_string((int)c) + " " + op_str(OPS[c]) + "\n";
    return s;
}
void fail(const std::string& key, const std::string& what, const std::string& hist) { vx::violation(key, what, describe(hist)); }
int txidx(const CTransactionRef& t) { for (int i = 0; i < NTX; i++) if (t && t->GetWitnessHash() == TX[i]->GetWitnessHash()) return i; return -1; }

// ------------------------------------------------------------------ queue model (from private_broadcast.h)
struct MSend { int node; int64_t picked; std::optional<int64_t> confirmed; };
struct MTx { int64_t added = 0; std::vector<MSend> sends; uint64_t picks_since_add = 0; };
struct Prio { size_t num_picked = 0, num_confirmed = 0; int64_t last_picked = INT64_MIN, last_confirmed = INT64_MIN; };
struct Model {
    std::map<int, MTx> q;
    bool pending(const MTx& t) const { return t.sends.size() < MAX_ATTEMPTS; }
    static Prio prio(const MTx& t)
    {
        Prio p;
        p.num_picked = t.sends.size();
        for (auto& s : t.sends) {
            p.last_picked = std::max(p.last_picked, s.picked);
            if (s.confirmed) { p.num_confirmed++; p.last_confirmed = std::max(p.last_confirmed, *s.confirmed); }
        }
        return p;
    }
    // "Pick the transaction with the fewest send attempts, and confirmations, and oldest send/confirm times"
    static auto rank(const Prio& p) { return std::tie(p.num_picked, p.num_confirmed, p.last_picked, p.last_confirmed); }
    std::optional<int> node_tx(int node) const
    {
        for (auto& [i, t] : q) for (auto& s : t.sends) if (s.node == node) return i;
        return std::nullopt;
    }
    std::string key(int64_t now) const
    {
        std::string s;
        for (auto& [i, t] : q) {
            s += "t" + std::to_string(i) + "@" + std::to_string(now - t.added) + "[";
            for (auto& x : t.sends) s += std::to_string(x.node) + ":" + std::to_string(now - x.picked) + ":" + (x.confirmed ? std::to_string(now - *x.confirmed) : "-") + ",";
            s += "]" + std::to_string(t.picks_since_add);
        }
        return s;
    }
};

std::string impl_key(PrivateBroadcast& pb, int64_t now)
{
    LOCK(pb.m_mutex);
    std::string s, order;
    std::map<int, std::string> rows;
    auto rel = [&](NodeClock::time_point t) { return now - std::chrono::duration_cast<std::chrono::seconds>(t.time_since_epoch()).count(); };
    for (auto& [tx, st] : pb.m_transactions) {
        int i = txidx(tx);
        order += std::to_string(i) + ","; // iteration order decides ties in PickTxForSend
        std::string r = "@" + std::to_string(rel(st.time_added)) + "[";
        for (auto& x : st.send_statuses) r += std::to_string(x.nodeid) + ":" + std::to_string(rel(x.picked)) + ":" + (x.confirmed ? std::to_string(rel(*x.confirmed)) : "-") + ",";
        rows[i] = r + "]";
    }
    for (auto& [i, r] : rows) s += "t" + std::to_string(i) + r;
    return s + "|o:" + order;
}

std::atomic<uint64_t> g_queue_full{0}, g_already{0}, g_readd_exhausted{0}, g_pick_tie{0}, g_pick_unique{0}, g_pick_none_exhausted{0}, g_pick_node_reuse{0}, g_stale_initial{0}, g_stale_confirmed{0},
    g_remove_confirmed{0}, g_confirm{0}, g_reconfirm{0}, g_prio_by_confirm{0}, g_prio_by_time{0}, g_not_stale_recent_confirm{0}, g_node_freed_by_remove{0};

bool replay(const std::string& hist, std::string& key)
{
    PrivateBroadcast pb{MAX_TX, MAX_ATTEMPTS};
    Model m;
    int64_t now = T0;
    SetMockTime(std::chrono::seconds{now});
    const size_t n = hist.size();
    auto tp = [](NodeClock::time_point t) { return std::chrono::duration_cast<std::chrono::seconds>(t.time_since_epoch()).count(); };
    for (size_t i = 0; i < n; i++) {
        {
            const Op& o = OPS[(unsigned char)hist[i]];
            const bool last = (i + 1 == n);
            switch (o.t) {
            case ADD: {
                auto r = pb.Add(TX[o.x]);
                PrivateBroadcast::AddResult want;
                auto it = m.q.find(o.x);
                if (it != m.q.end()) {
                    if (m.pending(it->second)) want = PrivateBroadcast::AddResult::AlreadyPresent;
                    else { want = PrivateBroadcast::AddResult::Added; it->second = MTx{now, {}, 0}; if (last) g_readd_exhausted++; }
                } else if (m.q.size() >= MAX_TX) want = PrivateBroadcast::AddResult::QueueFull;
                else { want = PrivateBroadcast::AddResult::Added; m.q[o.x] = MTx{now, {}, 0}; }
                if (last) {
                    if (r != want) fail("add-result", "Add(tx" + std::to_string(o.x) + ") returned " + std::to_string((int)r) + ", the specification gives " + std::to_string((int)want) + " (0=Added 1=AlreadyPresent 2=QueueFull)", hist);
                    if (want == PrivateBroadcast::AddResult::QueueFull) g_queue_full++;
                    if (want == PrivateBroadcast::AddResult::AlreadyPresent) g_already++;
                }
                break;
            }
            case REMOVE: {
                auto r = pb.Remove(TX[o.x]);
                std::optional<size_t> want;
                auto it = m.q.find(o.x);
                if (it != m.q.end()) {
                    want = Model::prio(it->second).num_confirmed;
                    if (last && !it->second.sends.empty()) g_node_freed_by_remove++;
                    m.q.erase(it);
                }
                if (last && r != want) fail("remove-result", "Remove(tx" + std::to_string(o.x) + ") returned " + (r ? std::to_string(*r) : std::string("nullopt")) + ", the specification gives " + (want ? std::to_string(*want) : std::string("nullopt")), hist);
                if (last && want && *want > 0) g_remove_confirmed++;
                break;
            }
            case PICK: {
                const bool reuse = m.node_tx(o.x).has_value();
                auto r = pb.PickTxForSend(o.x, ADDR[o.x]);
                // candidates: pending transactions of the highest priority
                std::vector<int> best;
                for (auto& [ti, t] : m.q) {
                    if (!m.pending(t)) continue;
                    if (best.empty()) { best = {ti}; continue; }
                    auto a = Model::rank(Model::prio(t)), b = Model::rank(Model::prio(m.q[best[0]]));
                    if (a < b) best = {ti};
                    else if (a == b) best.push_back(ti);
                }
                if (reuse) {
                    if (last) { g_pick_node_reuse++; if (r) fail("second-tx-for-node", "PickTxForSend(node" + std::to_string(o.x) + ") handed out a transaction although one was already picked for this node", hist); }
                    if (r) { int got = txidx(*r); if (got >= 0 && m.q.count(got)) m.q[got].sends.push_back(MSend{o.x, now, std::nullopt}); }
                    break;
                }
                if (!r) {
                    if (last && !best.empty()) fail("pick-nothing", "PickTxForSend returned nothing although a transaction with send attempts remaining exists", hist);
                    if (last && best.empty() && !m.q.empty()) g_pick_none_exhausted++;
                    break;
                }
                int got = txidx(*r);
                if (got < 0 || !m.q.count(got)) { if (last) fail("pick-unknown", "PickTxForSend returned a transaction that is not in the queue", hist); break; }
                if (last) {
                    if (!m.pending(m.q[got])) fail("pick-exhausted", "PickTxForSend returned tx" + std::to_string(got) + " which has no send attempts remaining", hist);
                    else if (std::find(best.begin(), best.end(), got) == best.end()) fail("pick-priority", "PickTxForSend returned tx" + std::to_string(got) + " although tx" + std::to_string(best[0]) + " has fewer send attempts / confirmations / older send-confirm times", hist);
                    if (m.q[got].picks_since_add + 1 > MAX_ATTEMPTS) fail("more-than-max-attempts", "tx" + std::to_string(got) + " was picked more than max_send_attempts times since it was (re-)added", hist);
                    (best.size() > 1 ? g_pick_tie : g_pick_unique)++;
                    // which clause of the priority decided?
                    size_t np = SIZE_MAX;
                    for (auto& [ti, t] : m.q) if (m.pending(t)) np = std::min(np, t.sends.size());
                    int same_picked = 0;
                    bool confirm_differs = false, time_differs = false;
                    for (auto& [ti, t] : m.q) if (m.pending(t) && t.sends.size() == np) {
                        same_picked++;
                        if (Model::prio(t).num_confirmed != Model::prio(m.q[got]).num_confirmed) confirm_differs = true;
                        else if (Model::prio(t).last_picked != Model::prio(m.q[got]).last_picked) time_differs = true;
                    }
                    if (same_picked > 1 && confirm_differs) g_prio_by_confirm++;
                    if (same_picked > 1 && time_differs) g_prio_by_time++;
                }
                m.q[got].sends.push_back(MSend{o.x, now, std::nullopt});
                m.q[got].picks_since_add++;
                break;
            }
            case CONFIRM: {
                pb.NodeConfirmedReception(o.x);
                if (auto ti = m.node_tx(o.x)) {
                    for (auto& s : m.q[*ti].sends) if (s.node == o.x) { if (last) (s.confirmed ? g_reconfirm : g_confirm)++; s.confirmed = now; }
                }
                break;
            }
            case CLK1: now += 60; SetMockTime(std::chrono::seconds{now}); break;
            case CLK5: now += 300; SetMockTime(std::chrono::seconds{now}); break;
            }
        }
    }
    {
        // ---- every query against the model (state after the last operation; prefixes were checked as shorter histories)
        auto info = pb.GetBroadcastInfo();
        if (info.size() > MAX_TX) fail("queue-over-max", "the queue holds " + std::to_string(info.size()) + " transactions, max_transactions=" + std::to_string(MAX_TX), hist);
        std::set<int> seen;
        for (auto& e : info) {
            int ti = txidx(e.tx);
            if (ti < 0 || !m.q.count(ti) || !seen.insert(ti).second) { fail("info-unknown-tx", "GetBroadcastInfo lists a transaction that is not in the queue (or lists it twice)", hist); continue; }
            const MTx& t = m.q[ti];
            bool same = tp(e.time_added) == t.added && e.peers.size() == t.sends.size() && e.attempts_remaining == MAX_ATTEMPTS - std::min(t.sends.size(), MAX_ATTEMPTS);
            for (size_t k = 0; same && k < t.sends.size(); k++) {
                same = e.peers[k].address == ADDR[t.sends[k].node] && tp(e.peers[k].sent) == t.sends[k].picked && e.peers[k].received.has_value() == t.sends[k].confirmed.has_value() &&
                       (!e.peers[k].received || tp(*e.peers[k].received) == *t.sends[k].confirmed);
            }
            if (!same) fail("info-mismatch", "GetBroadcastInfo entry of tx" + std::to_string(ti) + " (time added, attempts remaining, peers with sent/received times) differs from the model", hist);
            if (t.sends.size() > MAX_ATTEMPTS) fail("sent-more-than-max", "tx" + std::to_string(ti) + " has more send records than max_send_attempts", hist);
        }
        if (seen.size() != m.q.size()) fail("info-missing-tx", "GetBroadcastInfo lists " + std::to_string(seen.size()) + " transactions, the model holds " + std::to_string(m.q.size()), hist);
        bool any_pending = false;
        for (auto& [ti, t] : m.q) any_pending |= m.pending(t);
        if (pb.HavePendingTransactions() != any_pending) fail("havepending", "HavePendingTransactions() disagrees with the model", hist);
        for (int node = 0; node < NNODE; node++) {
            auto r = pb.GetTxForNode(node);
            auto want = m.node_tx(node);
            if (r.has_value() != want.has_value() || (r && txidx(*r) != *want)) fail("gettxfornode", "GetTxForNode(node" + std::to_string(node) + ") does not return exactly the transaction picked for that node", hist);
            bool conf = false;
            if (want) for (auto& s : m.q[*want].sends) if (s.node == node) conf = s.confirmed.has_value();
            if (pb.DidNodeConfirmReception(node) != conf) fail("didnodeconfirm", "DidNodeConfirmReception(node" + std::to_string(node) + ") disagrees with the model", hist);
            // one transaction per node
            int cnt = 0;
            for (auto& [ti, t] : m.q) for (auto& s : t.sends) cnt += s.node == node;
            if (cnt > 1) fail("node-has-two-txs", "node" + std::to_string(node) + " appears in the send records of two transactions", hist);
        }
        {
            std::set<int> got, want;
            for (auto& t : pb.GetStale()) got.insert(txidx(t));
            for (auto& [ti, t] : m.q) {
                if (!m.pending(t)) continue;
                Prio p = Model::prio(t);
                if (p.num_confirmed == 0) { if (t.added < now - 300) { want.insert(ti); g_stale_initial++; } }
                else if (p.last_confirmed < now - 60) { want.insert(ti); g_stale_confirmed++; }
                else if (t.added < now - 300) g_not_stale_recent_confirm++;
            }
            if (got != want) fail("getstale", "GetStale() differs from the model (pending and: never confirmed and added > 5 min ago, or last confirmation > 1 min ago)", hist);
        }
    }
    key = impl_key(pb, now) + "|" + m.key(now);
    return true;
}

CTransactionRef make_tx(int i)
{
    CMutableTransaction t;
    t.version = 2;
    t.vin.resize(1);
    t.vin[0].prevout = COutPoint(Txid::FromUint256(uint256{(uint8_t)(0x30 + i)}), (uint32_t)i);
    t.vout.resize(1);
    t.vout[0].nValue = 1000 + i;
    t.vout[0].scriptPubKey = CScript() << OP_TRUE;
    return MakeTransactionRef(t);
}

int run()
{
    auto& E = vx::ev();
    const bool big = vx::thorough();
    const unsigned partb_workers = vx::ncpu(); // before VERIF_JOBS is forced to 1 for part (a)
    setenv("VERIF_JOBS", "1", 1); // NodeClock mock time is process-global
    int depth = big ? 10 : 8;
    if (vx::ctx().args.size() >= 1) depth = atoi(vx::ctx().args[0].c_str());
    if (vx::ctx().args.size() >= 2) NNODE = atoi(vx::ctx().args[1].c_str());
    for (int i = 0; i < 4; i++) {
        TX[i] = make_tx(i);
        in_addr a;
        a.s_addr = htonl((8u << 24) | (8u << 16) | (8u << 8) | (unsigned)(i + 1));
        ADDR[i] = CService{CNetAddr{a}, (uint16_t)(8333 + i)};
    }
    for (int i = 0; i < NTX; i++) OPS.push_back(Op{ADD, i});
    for (int i = 0; i < NTX; i++) OPS.push_back(Op{REMOVE, i});
    for (int i = 0; i < NNODE; i++) OPS.push_back(Op{PICK, i});
    for (int i = 0; i < NNODE; i++) OPS.push_back(Op{CONFIRM, i});
    OPS.push_back(Op{CLK1});
    OPS.push_back(Op{CLK5});
    hb::describer() = describe;

    if (!vx::ctx().replay.empty()) {
        std::ifstream f(vx::ctx().replay);
        std::string line, hist;
        while (std::getline(f, line)) { if (line.empty() || !isdigit((unsigned char)line[0])) continue; hist.push_back((char)atoi(line.c_str())); }
        printf("replaying %zu operations:\n%s", hist.size(), describe(hist).c_str());
        for (size_t i = 1; i <= hist.size(); i++) { std::string k; replay(hist.substr(0, i), k); }
        printf("replay finished: %d violation(s)\n", vx::rep().violations);
        return vx::finish();
    }

    // ---- part (b): the real PeerManager on a regtest node (fork-per-transition search, see partb.cpp). It runs first,
    // while this process image is still small (fork cost), and its state/transition counts are added below.
    c39_part_b(big, partb_workers);
    const uint64_t partb_states = E.states.load(), partb_transitions = E.transitions.load();
    const bool partb_exhaustive = E.exhaustive;

    hb::Bfs bfs;
    bfs.nops = (int)OPS.size();
    bfs.max_depth = depth;
    bfs.replay = replay;
    std::map<int, int> per;
    bfs.on_new_state = [&](const std::string& h, int d) {
        if (h.empty() || d < 5) return;
        OpType lt = OPS[(unsigned char)h.back()].t;
        if ((lt != PICK && lt != ADD && lt != CONFIRM) || per[d * 10 + lt]++ >= 1) return;
        std::string s;
        for (unsigned char c : h) s += op_str(OPS[c]) + "; ";
        E.sample(s);
    };
    bfs.run();
    E.states = bfs.states + partb_states;
    E.transitions = bfs.transitions + partb_transitions;
    E.traces_validated = bfs.transitions + partb_transitions;
    E.exhaustive = bfs.complete && partb_exhaustive;
    E.set("max_depth_completed", (uint64_t)bfs.depth_done);
    E.set("max_depth_target", (uint64_t)depth);
    E.set("operations_in_alphabet", (uint64_t)OPS.size());
    {
        std::string ls;
        for (auto v : bfs.level_states) ls += std::to_string(v) + " ";
        E.set_str("new_states_per_depth", ls);
    }
    struct G { const char* n; uint64_t v; } gates[] = {
        {"Add rejected: queue full", g_queue_full}, {"Add: already present", g_already}, {"exhausted tx re-added", g_readd_exhausted}, {"pick with a unique best tx", g_pick_unique}, {"pick among tied txs", g_pick_tie},
        {"pick decided by confirmations", g_prio_by_confirm}, {"pick decided by send time", g_prio_by_time}, {"nothing to pick: all exhausted", g_pick_none_exhausted}, {"PickTxForSend for a node that already has a tx", g_pick_node_reuse},
        {"stale: never confirmed, added > 5 min ago", g_stale_initial}, {"stale: last confirmation > 1 min ago", g_stale_confirmed}, {"old tx not stale because of a recent confirmation", g_not_stale_recent_confirm},
        {"Remove returned a confirmation count > 0", g_remove_confirmed}, {"node confirmed", g_confirm}, {"node confirmed again", g_reconfirm}, {"Remove freed a node id", g_node_freed_by_remove}};
    for (auto& g : gates) E.set(std::string("n: ") + g.n, g.v);
    E.rule = "BFS over all histories of {Add(tx), Remove(tx), PickTxForSend(node) (also for a node that already has a tx), NodeConfirmedReception(node), clock +1min, clock +5min} with " + std::to_string(NTX) + " txs, " + std::to_string(NNODE) + " nodes on PrivateBroadcast(max_transactions=2, max_send_attempts=2); "
             "states merged on (the object's transaction table with all times relative to the clock, its iteration order, model state); after every call Add/Remove results, the picked tx (must be one of the model's best-priority candidates), GetTxForNode, DidNodeConfirmReception, HavePendingTransactions, GetStale and the full GetBroadcastInfo are compared with the queue model; monitors: queue <= max, <= max_send_attempts picks per (re-)Add, one tx per node";
    E.rule += "; part b: DFS with fork-per-transition over histories of {M<i> local submit, R<i> tx from peer Q, V<i> private submit, SendMessages(A|B), getdata(A|B, i), block, open private connection, private peer requests announced/other tx} on the real PeerManager, states merged on (pool membership, entry order vs last inv per peer, announced, recent block, private flags, private queue info, connection state); states/transitions are the sums of both parts";
    E.assume("behaviour is invariant under a common shift of all times (states are merged on times relative to the mock clock)");
    E.assume("where several transactions have equal priority PickTxForSend may return any of them; the choice is adopted by the model");
    E.assume("part a explores only the PrivateBroadcast object; the net_processing side of the property (getdata after inv, private-broadcast connections) is explored by part b (partb_* keys)");
    if (bfs.complete && vx::rep().violations == 0)
        for (auto& g : gates) if (g.v == 0) { printf("HARNESS-ERROR vacuous: never observed '%s'\n", g.n); vx::write_evidence(); return 2; }
    return vx::finish();
}

} // namespace

int main(int argc, char** argv)
{
    vx::init(argc, argv, "C39", "model_checking");
    return hb::guarded(run);
}
