LINK := full
KITS := chainkit p2pkit
